#!/bin/bash
# Offline setup: build the driver and warm the Go build cache (plain and -race) for the engines.
set -u
cd "$(dirname "$0")"
export GOFLAGS=-mod=mod GOPROXY=off GOSUMDB=off GOTOOLCHAIN=local
mkdir -p h/bin evidence replays
cp -n /repo/go.sum h/go.sum 2>/dev/null || true
( cd h && go build -o bin/vrun ./cmd/vrun ) || exit 1
( cd h && go build -o /dev/null ./mon/... 2>&1 | tail -5 )
( cd h && go build -race -o /dev/null ./vk 2>&1 | tail -5 )
exit 0
