// Package vatomic mirrors the part of sync/atomic that sentinel-golang uses.
// Files of /repo are compiled against it through `go build -overlay` (see
// cmd/vrun/instrument.go); every operation first calls Hook (a scheduler yield
// point) and then performs the real atomic operation. With Hook == nil it is a
// plain call-through.
package vatomic

import (
	"sync/atomic"
	"unsafe"
)

// Hook is called before every shimmed atomic access. op is the operation name.
var Hook func(op string, addr unsafe.Pointer)

// After is called after the access with the observed/new value (optional tracing).
var After func(op string, addr unsafe.Pointer, val int64, ok bool)

// Count is the number of shimmed accesses executed so far (monitors use it to make sure that the code under
// test is observable at all before they trust "nothing was read" style conclusions).
var Count uint64

func pre(op string, p unsafe.Pointer) {
	atomic.AddUint64(&Count, 1)
	if h := Hook; h != nil {
		h(op, p)
	}
}

func post(op string, p unsafe.Pointer, v int64, ok bool) {
	if a := After; a != nil {
		a(op, p, v, ok)
	}
}

func LoadInt32(addr *int32) int32 {
	pre("LoadInt32", unsafe.Pointer(addr))
	v := atomic.LoadInt32(addr)
	post("LoadInt32", unsafe.Pointer(addr), int64(v), true)
	return v
}
func LoadInt64(addr *int64) int64 {
	pre("LoadInt64", unsafe.Pointer(addr))
	v := atomic.LoadInt64(addr)
	post("LoadInt64", unsafe.Pointer(addr), v, true)
	return v
}
func LoadUint32(addr *uint32) uint32 {
	pre("LoadUint32", unsafe.Pointer(addr))
	v := atomic.LoadUint32(addr)
	post("LoadUint32", unsafe.Pointer(addr), int64(v), true)
	return v
}
func LoadUint64(addr *uint64) uint64 {
	pre("LoadUint64", unsafe.Pointer(addr))
	v := atomic.LoadUint64(addr)
	post("LoadUint64", unsafe.Pointer(addr), int64(v), true)
	return v
}
func LoadPointer(addr *unsafe.Pointer) unsafe.Pointer {
	pre("LoadPointer", unsafe.Pointer(addr))
	return atomic.LoadPointer(addr)
}
func StoreInt32(addr *int32, val int32) {
	pre("StoreInt32", unsafe.Pointer(addr))
	atomic.StoreInt32(addr, val)
	post("StoreInt32", unsafe.Pointer(addr), int64(val), true)
}
func StoreInt64(addr *int64, val int64) {
	pre("StoreInt64", unsafe.Pointer(addr))
	atomic.StoreInt64(addr, val)
	post("StoreInt64", unsafe.Pointer(addr), val, true)
}
func StoreUint32(addr *uint32, val uint32) {
	pre("StoreUint32", unsafe.Pointer(addr))
	atomic.StoreUint32(addr, val)
	post("StoreUint32", unsafe.Pointer(addr), int64(val), true)
}
func StoreUint64(addr *uint64, val uint64) {
	pre("StoreUint64", unsafe.Pointer(addr))
	atomic.StoreUint64(addr, val)
	post("StoreUint64", unsafe.Pointer(addr), int64(val), true)
}
func StorePointer(addr *unsafe.Pointer, val unsafe.Pointer) {
	pre("StorePointer", unsafe.Pointer(addr))
	atomic.StorePointer(addr, val)
}
func AddInt32(addr *int32, delta int32) int32 {
	pre("AddInt32", unsafe.Pointer(addr))
	v := atomic.AddInt32(addr, delta)
	post("AddInt32", unsafe.Pointer(addr), int64(v), true)
	return v
}
func AddInt64(addr *int64, delta int64) int64 {
	pre("AddInt64", unsafe.Pointer(addr))
	v := atomic.AddInt64(addr, delta)
	post("AddInt64", unsafe.Pointer(addr), v, true)
	return v
}
func AddUint32(addr *uint32, delta uint32) uint32 {
	pre("AddUint32", unsafe.Pointer(addr))
	v := atomic.AddUint32(addr, delta)
	post("AddUint32", unsafe.Pointer(addr), int64(v), true)
	return v
}
func AddUint64(addr *uint64, delta uint64) uint64 {
	pre("AddUint64", unsafe.Pointer(addr))
	v := atomic.AddUint64(addr, delta)
	post("AddUint64", unsafe.Pointer(addr), int64(v), true)
	return v
}
func CompareAndSwapInt32(addr *int32, old, new int32) bool {
	pre("CompareAndSwapInt32", unsafe.Pointer(addr))
	ok := atomic.CompareAndSwapInt32(addr, old, new)
	post("CompareAndSwapInt32", unsafe.Pointer(addr), int64(new), ok)
	return ok
}
func CompareAndSwapInt64(addr *int64, old, new int64) bool {
	pre("CompareAndSwapInt64", unsafe.Pointer(addr))
	ok := atomic.CompareAndSwapInt64(addr, old, new)
	post("CompareAndSwapInt64", unsafe.Pointer(addr), new, ok)
	return ok
}
func CompareAndSwapUint32(addr *uint32, old, new uint32) bool {
	pre("CompareAndSwapUint32", unsafe.Pointer(addr))
	ok := atomic.CompareAndSwapUint32(addr, old, new)
	post("CompareAndSwapUint32", unsafe.Pointer(addr), int64(new), ok)
	return ok
}
func CompareAndSwapUint64(addr *uint64, old, new uint64) bool {
	pre("CompareAndSwapUint64", unsafe.Pointer(addr))
	ok := atomic.CompareAndSwapUint64(addr, old, new)
	post("CompareAndSwapUint64", unsafe.Pointer(addr), int64(new), ok)
	return ok
}
func CompareAndSwapPointer(addr *unsafe.Pointer, old, new unsafe.Pointer) bool {
	pre("CompareAndSwapPointer", unsafe.Pointer(addr))
	return atomic.CompareAndSwapPointer(addr, old, new)
}
func SwapInt32(addr *int32, new int32) int32 {
	pre("SwapInt32", unsafe.Pointer(addr))
	return atomic.SwapInt32(addr, new)
}
func SwapInt64(addr *int64, new int64) int64 {
	pre("SwapInt64", unsafe.Pointer(addr))
	return atomic.SwapInt64(addr, new)
}
func SwapUint32(addr *uint32, new uint32) uint32 {
	pre("SwapUint32", unsafe.Pointer(addr))
	return atomic.SwapUint32(addr, new)
}
func SwapUint64(addr *uint64, new uint64) uint64 {
	pre("SwapUint64", unsafe.Pointer(addr))
	return atomic.SwapUint64(addr, new)
}

// Value mirrors atomic.Value (zero value usable, must not be copied after first use).
type Value struct{ v atomic.Value }

func (x *Value) Load() interface{} {
	pre("Value.Load", unsafe.Pointer(x))
	return x.v.Load()
}
func (x *Value) Store(val interface{}) {
	pre("Value.Store", unsafe.Pointer(x))
	x.v.Store(val)
}
func (x *Value) Swap(new interface{}) interface{} {
	pre("Value.Swap", unsafe.Pointer(x))
	return x.v.Swap(new)
}
func (x *Value) CompareAndSwap(old, new interface{}) bool {
	pre("Value.CompareAndSwap", unsafe.Pointer(x))
	return x.v.CompareAndSwap(old, new)
}

// Typed atomics (not used by the repo today; present so a refactor still builds).
type Int32 struct{ v int32 }

func (x *Int32) Load() int32                    { return LoadInt32(&x.v) }
func (x *Int32) Store(v int32)                  { StoreInt32(&x.v, v) }
func (x *Int32) Add(d int32) int32              { return AddInt32(&x.v, d) }
func (x *Int32) CompareAndSwap(o, n int32) bool { return CompareAndSwapInt32(&x.v, o, n) }

type Int64 struct{ v int64 }

func (x *Int64) Load() int64                    { return LoadInt64(&x.v) }
func (x *Int64) Store(v int64)                  { StoreInt64(&x.v, v) }
func (x *Int64) Add(d int64) int64              { return AddInt64(&x.v, d) }
func (x *Int64) CompareAndSwap(o, n int64) bool { return CompareAndSwapInt64(&x.v, o, n) }

type Uint32 struct{ v uint32 }

func (x *Uint32) Load() uint32                    { return LoadUint32(&x.v) }
func (x *Uint32) Store(v uint32)                  { StoreUint32(&x.v, v) }
func (x *Uint32) Add(d uint32) uint32             { return AddUint32(&x.v, d) }
func (x *Uint32) CompareAndSwap(o, n uint32) bool { return CompareAndSwapUint32(&x.v, o, n) }

type Uint64 struct{ v uint64 }

func (x *Uint64) Load() uint64                    { return LoadUint64(&x.v) }
func (x *Uint64) Store(v uint64)                  { StoreUint64(&x.v, v) }
func (x *Uint64) Add(d uint64) uint64             { return AddUint64(&x.v, d) }
func (x *Uint64) CompareAndSwap(o, n uint64) bool { return CompareAndSwapUint64(&x.v, o, n) }

type Bool struct{ v uint32 }

func (x *Bool) Load() bool { return LoadUint32(&x.v) != 0 }
func (x *Bool) Store(b bool) {
	if b {
		StoreUint32(&x.v, 1)
	} else {
		StoreUint32(&x.v, 0)
	}
}

// ---- the rest of the sync/atomic API (so that an instrumented file keeps compiling whatever it uses)

func LoadUintptr(addr *uintptr) uintptr {
	pre("LoadUintptr", unsafe.Pointer(addr))
	return atomic.LoadUintptr(addr)
}
func StoreUintptr(addr *uintptr, val uintptr) {
	pre("StoreUintptr", unsafe.Pointer(addr))
	atomic.StoreUintptr(addr, val)
}
func AddUintptr(addr *uintptr, delta uintptr) uintptr {
	pre("AddUintptr", unsafe.Pointer(addr))
	return atomic.AddUintptr(addr, delta)
}
func CompareAndSwapUintptr(addr *uintptr, old, new uintptr) bool {
	pre("CompareAndSwapUintptr", unsafe.Pointer(addr))
	return atomic.CompareAndSwapUintptr(addr, old, new)
}
func SwapUintptr(addr *uintptr, new uintptr) uintptr {
	pre("SwapUintptr", unsafe.Pointer(addr))
	return atomic.SwapUintptr(addr, new)
}
func SwapPointer(addr *unsafe.Pointer, new unsafe.Pointer) unsafe.Pointer {
	pre("SwapPointer", unsafe.Pointer(addr))
	return atomic.SwapPointer(addr, new)
}
func (x *Int32) Swap(n int32) int32    { return SwapInt32(&x.v, n) }
func (x *Int64) Swap(n int64) int64    { return SwapInt64(&x.v, n) }
func (x *Uint32) Swap(n uint32) uint32 { return SwapUint32(&x.v, n) }
func (x *Uint64) Swap(n uint64) uint64 { return SwapUint64(&x.v, n) }
func (x *Bool) Swap(b bool) bool {
	n := uint32(0)
	if b {
		n = 1
	}
	return SwapUint32(&x.v, n) != 0
}
func (x *Bool) CompareAndSwap(o, n bool) bool {
	a, b := uint32(0), uint32(0)
	if o {
		a = 1
	}
	if n {
		b = 1
	}
	return CompareAndSwapUint32(&x.v, a, b)
}

type Uintptr struct{ v uintptr }

func (x *Uintptr) Load() uintptr                    { return LoadUintptr(&x.v) }
func (x *Uintptr) Store(v uintptr)                  { StoreUintptr(&x.v, v) }
func (x *Uintptr) Add(d uintptr) uintptr            { return AddUintptr(&x.v, d) }
func (x *Uintptr) Swap(n uintptr) uintptr           { return SwapUintptr(&x.v, n) }
func (x *Uintptr) CompareAndSwap(o, n uintptr) bool { return CompareAndSwapUintptr(&x.v, o, n) }

type Pointer[T any] struct{ v unsafe.Pointer }

func (x *Pointer[T]) Load() *T     { return (*T)(LoadPointer(&x.v)) }
func (x *Pointer[T]) Store(p *T)   { StorePointer(&x.v, unsafe.Pointer(p)) }
func (x *Pointer[T]) Swap(p *T) *T { return (*T)(SwapPointer(&x.v, unsafe.Pointer(p))) }
func (x *Pointer[T]) CompareAndSwap(o, n *T) bool {
	return CompareAndSwapPointer(&x.v, unsafe.Pointer(o), unsafe.Pointer(n))
}
