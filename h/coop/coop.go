// Package coop runs real goroutines cooperatively: exactly one worker is
// runnable at any time; a worker parks at every yield point (each shimmed atomic
// access through vatomic.Hook, plus explicit coop.Yield calls placed by the
// monitor) and the scheduler decides who performs the next step. A run is a
// deterministic function of the choice sequence, which is recorded.
package coop

import (
	"fmt"
	"math/rand"
	"runtime/debug"
	"strings"
	"sync/atomic"
	"time"
	"unsafe"

	"verif/vatomic"
)

// Chooser picks the next worker among the runnable ones.
type Chooser interface {
	// Pick returns an element of runnable. last is the worker that performed the
	// previous step (-1 at the start), step the index of the step to be taken.
	Pick(step int, runnable []int, last int) int
}

type worker struct {
	id     int
	wake   chan struct{}
	done   bool
	steps  int
	site   string
	panicV interface{}
	stack  string
}

type Result struct {
	Choices       []byte // worker id per step
	Steps         int
	StepsOf       []int
	NonTerminated []int // workers still running when the fair tail was exhausted
	Panics        map[int]string
	Stuck         bool // a worker did not reach a yield point within the wall-clock guard (inconclusive)
	Events        []Event
}

// Event is one entry of the totally ordered trace (monitor events and, when
// TraceAtomics is set, atomic accesses).
type Event struct {
	W    int
	Kind string
	A, B int64
	S    string
}

type Sched struct {
	ws     []*worker
	cur    *worker
	yield  chan *worker
	events []Event
	active int32
	Trace  bool // record atomic ops as events
}

var current *Sched // only touched while exactly one goroutine runs

// Emit appends a monitor event to the current run's trace (call from a worker).
func Emit(kind string, a, b int64, s string) {
	if sc := current; sc != nil && sc.cur != nil {
		sc.events = append(sc.events, Event{W: sc.cur.id, Kind: kind, A: a, B: b, S: s})
	}
}

// Me returns the id of the running worker (-1 outside a run).
func Me() int {
	if sc := current; sc != nil && sc.cur != nil {
		return sc.cur.id
	}
	return -1
}

// Yield is an explicit yield point.
func Yield(site string) {
	sc := current
	if sc == nil || atomic.LoadInt32(&sc.active) == 0 || sc.cur == nil {
		return
	}
	w := sc.cur
	w.site = site
	sc.yield <- w
	<-w.wake
}

// AtomicFilter, when set, decides whether a shimmed atomic access of the running worker is a yield point
// (monitors whose oracle is exact only at a coarser granularity enable the fine-grained points for the phases
// their oracle can account for).
var AtomicFilter func() bool

func hook(op string, addr unsafe.Pointer) {
	if f := AtomicFilter; f != nil && !f() && !strings.HasSuffix(op, "-wait") {
		return // ("-wait": a lock is held by a parked worker - it must be allowed to run)
	}
	Yield(op)
}

type Options struct {
	Adversarial int // steps decided by the chooser (default 2000)
	FairTail    int // further round-robin steps before a worker is declared non-terminating (default 10000)
	Trace       bool
	StuckAfter  time.Duration // wall-clock guard per step (default 60s) => Stuck (inconclusive)
}

// Run executes fns as cooperative workers under ch.
func Run(ch Chooser, opt Options, fns ...func()) *Result {
	if opt.Adversarial <= 0 {
		opt.Adversarial = 2000
	}
	if opt.FairTail <= 0 {
		opt.FairTail = 10000
	}
	if opt.StuckAfter <= 0 {
		opt.StuckAfter = 60 * time.Second
	}
	sc := &Sched{yield: make(chan *worker), Trace: opt.Trace}
	res := &Result{Panics: map[int]string{}}
	for i, fn := range fns {
		w := &worker{id: i, wake: make(chan struct{})}
		sc.ws = append(sc.ws, w)
		fn := fn
		go func() {
			<-w.wake
			defer func() {
				if e := recover(); e != nil {
					w.panicV = e
					w.stack = string(debug.Stack())
				}
				w.done = true
				sc.yield <- w
			}()
			fn()
		}()
	}
	current = sc
	atomic.StoreInt32(&sc.active, 1)
	vatomic.Hook = hook
	defer func() {
		vatomic.Hook = nil
		vatomic.After = nil
		atomic.StoreInt32(&sc.active, 0)
		current = nil
	}()
	if opt.Trace {
		vatomic.After = func(op string, addr unsafe.Pointer, v int64, ok bool) {
			b := int64(0)
			if ok {
				b = 1
			}
			if sc.cur != nil {
				sc.events = append(sc.events, Event{W: sc.cur.id, Kind: op, A: v, B: b, S: fmt.Sprintf("%x", uintptr(addr)&0xffff)})
			}
		}
	}
	last := -1
	runnable := make([]int, 0, len(fns))
	rr := 0
	timer := time.NewTimer(opt.StuckAfter)
	defer timer.Stop()
	for step := 0; ; step++ {
		runnable = runnable[:0]
		for _, w := range sc.ws {
			if !w.done {
				runnable = append(runnable, w.id)
			}
		}
		if len(runnable) == 0 {
			break
		}
		var pick int
		if step < opt.Adversarial {
			pick = ch.Pick(step, runnable, last)
		} else if step < opt.Adversarial+opt.FairTail {
			pick = runnable[rr%len(runnable)]
			rr++
		} else {
			res.NonTerminated = append([]int(nil), runnable...)
			break
		}
		w := sc.ws[pick]
		sc.cur = w
		w.steps++
		res.Choices = append(res.Choices, byte(pick))
		w.wake <- struct{}{}
		if !timer.Stop() {
			select {
			case <-timer.C:
			default:
			}
		}
		timer.Reset(opt.StuckAfter)
		select {
		case <-sc.yield:
		case <-timer.C:
			res.Stuck = true
			res.Steps = step + 1
			sc.cur = nil
			return res // leaked goroutines: the engine reports inconclusive and should exit soon
		}
		sc.cur = nil
		last = pick
		res.Steps = step + 1
	}
	for _, w := range sc.ws {
		res.StepsOf = append(res.StepsOf, w.steps)
		if w.panicV != nil {
			res.Panics[w.id] = fmt.Sprintf("%v\n%s", w.panicV, w.stack)
		}
	}
	res.Events = sc.events
	return res
}

// ---------------------------------------------------------------- choosers

// Random is the uniform random walk.
type Random struct{ R *rand.Rand }

func (c *Random) Pick(step int, runnable []int, last int) int {
	return runnable[c.R.Intn(len(runnable))]
}

// PCT is the probabilistic concurrency testing scheduler: random distinct
// priorities, D-1 priority change points at random steps below K; always run
// the highest-priority runnable worker. A worker that ran SpinLimit steps in a
// row while others were runnable is demoted (spin loops wait for a parked peer).
type PCT struct {
	prio      []int
	change    map[int]bool
	low       int
	run       int
	SpinLimit int
}

func NewPCT(r *rand.Rand, workers, d, k int) *PCT {
	p := &PCT{prio: make([]int, workers), change: map[int]bool{}, SpinLimit: 300}
	perm := r.Perm(workers)
	for i, v := range perm {
		p.prio[i] = v + d + 1
	}
	if k < 1 {
		k = 1
	}
	for i := 0; i < d-1; i++ {
		p.change[r.Intn(k)] = true
	}
	p.low = d
	return p
}

func (p *PCT) Pick(step int, runnable []int, last int) int {
	best := runnable[0]
	for _, w := range runnable[1:] {
		if p.prio[w] > p.prio[best] {
			best = w
		}
	}
	if best == last {
		p.run++
	} else {
		p.run = 0
	}
	if (p.change[step] || p.run > p.SpinLimit) && len(runnable) > 1 {
		p.low--
		p.prio[best] = p.low
		p.run = 0
		nb := runnable[0]
		for _, w := range runnable[1:] {
			if p.prio[w] > p.prio[nb] {
				nb = w
			}
		}
		best = nb
	}
	return best
}

// Script replays a recorded choice sequence, then falls back to the first runnable.
type Script struct{ Choices []byte }

func (s *Script) Pick(step int, runnable []int, last int) int {
	if step < len(s.Choices) {
		c := int(s.Choices[step])
		for _, r := range runnable {
			if r == c {
				return c
			}
		}
	}
	return runnable[0]
}

// Prefix follows a forced prefix and then delegates (used by the bounded DFS).
type Prefix struct {
	Forced []int
	Then   Chooser
}

func (p *Prefix) Pick(step int, runnable []int, last int) int {
	if step < len(p.Forced) {
		c := p.Forced[step]
		for _, r := range runnable {
			if r == c {
				return c
			}
		}
	}
	return p.Then.Pick(step, runnable, last)
}

// NonPreemptive keeps running the last worker while it is runnable, else the lowest id.
type NonPreemptive struct{}

func (NonPreemptive) Pick(step int, runnable []int, last int) int {
	for _, r := range runnable {
		if r == last {
			return r
		}
	}
	return runnable[0]
}

// DFS enumerates every schedule with at most MaxPreempt pre-emptions (a switch
// away from a worker that could have continued). Call Next until it returns false.
type DFS struct {
	MaxPreempt int
	stack      []dfsNode // decision points of the current schedule
	pos        int
	started    bool
	Schedules  int
}

type dfsNode struct {
	options []int // alternatives in exploration order
	idx     int
	preempt int // pre-emptions used before this node
	last    int
}

func (d *DFS) Pick(step int, runnable []int, last int) int {
	if d.pos < len(d.stack) {
		n := &d.stack[d.pos]
		d.pos++
		c := n.options[n.idx]
		for _, r := range runnable {
			if r == c {
				return c
			}
		}
		return runnable[0] // nondeterminism in the program under test: fall back
	}
	used := 0
	if len(d.stack) > 0 {
		p := d.stack[len(d.stack)-1]
		used = p.preempt
		if isPreempt(p.options[p.idx], p.last, p.options) {
			used++
		}
	}
	lastRunnable := false
	for _, r := range runnable {
		if r == last {
			lastRunnable = true
		}
	}
	var opts []int
	if lastRunnable {
		opts = append(opts, last)
		if used < d.MaxPreempt {
			for _, r := range runnable {
				if r != last {
					opts = append(opts, r)
				}
			}
		}
	} else {
		opts = append(opts, runnable...)
	}
	d.stack = append(d.stack, dfsNode{options: opts, idx: 0, preempt: used, last: last})
	d.pos++
	return opts[0]
}

func isPreempt(choice, last int, options []int) bool {
	if choice == last {
		return false
	}
	for _, o := range options {
		if o == last {
			return true
		}
	}
	return false
}

// Next prepares the next schedule; false when the bounded space is exhausted.
func (d *DFS) Next() bool {
	if !d.started {
		d.started = true
		d.pos = 0
		d.Schedules++
		return true
	}
	for len(d.stack) > 0 {
		n := &d.stack[len(d.stack)-1]
		if n.idx+1 < len(n.options) {
			n.idx++
			d.pos = 0
			d.Schedules++
			return true
		}
		d.stack = d.stack[:len(d.stack)-1]
	}
	return false
}
