// Package vk is the small kit every monitor engine uses: seeds, case
// bookkeeping, violation / inconclusive reporting and the partial-evidence
// file that the driver (cmd/vrun) merges into /verif/evidence/<ID>.json.
//
// An engine is a child process. It never decides the exit status of the check:
// it writes what it observed to $VERIF_OUT and exits 0. A process that dies
// (Go fatal error, checkptr, runtime deadlock) leaves $VERIF_OUT unwritten and
// $VERIF_CUR pointing at the case it was running; the driver turns that into a
// violation or an inconclusive verdict depending on the property.
package vk

import (
	"crypto/sha1"
	"encoding/hex"
	"encoding/json"
	"fmt"
	"math/rand"
	"os"
	"runtime/debug"
	"sort"
	"strconv"
	"strings"
	"sync"
	"time"
)

type Violation struct {
	Property string      `json:"property"`
	Engine   string      `json:"engine"`
	Sig      string      `json:"sig"`
	Msg      string      `json:"msg"`
	Seed     int64       `json:"seed"`
	Case     int         `json:"case"`
	Tier     string      `json:"tier"`
	Detail   interface{} `json:"detail,omitempty"`
	Count    int         `json:"count"`
}

type Partial struct {
	Property     string            `json:"property"`
	Engine       string            `json:"engine"`
	Tier         string            `json:"tier"`
	Seed         int64             `json:"seed"`
	Evaluations  int               `json:"evaluations"`
	Distinct     int               `json:"distinct_nontrivial"`
	Rule         string            `json:"rule"`
	Samples      []interface{}     `json:"samples"`
	Counters     map[string]int64  `json:"counters"`
	Assumptions  []string          `json:"assumptions"`
	Violations   []*Violation      `json:"violations"`
	Inconclusive []string          `json:"inconclusive"`
	MinDistinct  int               `json:"min_distinct"`
	Notes        map[string]string `json:"notes,omitempty"`
	WallS        float64           `json:"wall_s"`
	Done         bool              `json:"done"`
}

type Run struct {
	mu       sync.Mutex
	P        Partial
	distinct map[string]struct{}
	viol     map[string]*Violation
	only     int
	start    time.Time
	curCase  int
	curPath  string
	outPath  string
	maxSamp  int
}

func envInt(k string, def int64) int64 {
	if s := os.Getenv(k); s != "" {
		if v, err := strconv.ParseInt(s, 10, 64); err == nil {
			return v
		}
	}
	return def
}

// Start creates the run for one engine of one property.
func Start(property, engine string) *Run {
	tier := os.Getenv("VERIF_TIER")
	if tier != "thorough" {
		tier = "quick"
	}
	r := &Run{
		distinct: map[string]struct{}{},
		viol:     map[string]*Violation{},
		only:     int(envInt("VERIF_ONLY_CASE", -1)),
		start:    time.Now(),
		curPath:  os.Getenv("VERIF_CUR"),
		outPath:  os.Getenv("VERIF_OUT"),
		maxSamp:  3,
	}
	r.P = Partial{Property: property, Engine: engine, Tier: tier, Seed: envInt("VERIF_SEED", 1),
		Counters: map[string]int64{}, Notes: map[string]string{}}
	return r
}

func (r *Run) Thorough() bool { return r.P.Tier == "thorough" }

// N picks the per-tier case count. VERIF_SCALE (float) scales both, for
// experiments only.
func (r *Run) N(quick, thorough int) int {
	n := quick
	if r.Thorough() {
		n = thorough
	}
	if s := os.Getenv("VERIF_SCALE"); s != "" {
		if f, err := strconv.ParseFloat(s, 64); err == nil && f > 0 {
			n = int(float64(n) * f)
			if n < 1 {
				n = 1
			}
		}
	}
	return n
}

func (r *Run) Replaying() bool { return r.only >= 0 }

// Skip is true for every case but the one being replayed.
// Abort ends the process with an inconclusive result: used when the process state can no longer be trusted (a
// worker of the cooperative scheduler is stuck outside a yield point, possibly holding locks).
func (r *Run) Abort(msg string) {
	r.Inconclusive(msg)
	r.Finish()
	os.Exit(0)
}

func (r *Run) Skip(i int) bool { return r.only >= 0 && i != r.only }

func mix(x uint64) uint64 {
	x += 0x9e3779b97f4a7c15
	x = (x ^ (x >> 30)) * 0xbf58476d1ce4e5b9
	x = (x ^ (x >> 27)) * 0x94d049bb133111eb
	return x ^ (x >> 31)
}

// CaseSeed derives the per-case seed from VERIF_SEED, the engine name and the
// case index, so a case is reproducible on its own.
func (r *Run) CaseSeed(i int) int64 {
	h := uint64(r.P.Seed)
	for _, c := range []byte(r.P.Engine) {
		h = mix(h ^ uint64(c))
	}
	return int64(mix(h^uint64(i)) >> 1)
}

func (r *Run) Rand(i int) *rand.Rand { return rand.New(rand.NewSource(r.CaseSeed(i))) }

// Begin records the case about to run (crash attribution) and counts it.
// CaseHook, when set, is called at the start of every 2000th case (housekeeping between cases, e.g. dropping the
// library's per-resource statistic nodes of finished cases: every case uses fresh resource names, and millions of
// them would otherwise stay in memory during a thorough run).
var CaseHook func()

func (r *Run) caseStart() {
	if r.P.Evaluations%2000 == 0 && CaseHook != nil {
		CaseHook()
	}
}

func (r *Run) Begin(i int, desc interface{}) {
	r.mu.Lock()
	r.curCase = i
	r.P.Evaluations++
	r.caseStart()
	r.mu.Unlock()
	if r.curPath != "" {
		b, _ := json.Marshal(map[string]interface{}{"property": r.P.Property, "engine": r.P.Engine,
			"seed": r.P.Seed, "case": i, "tier": r.P.Tier, "desc": desc})
		_ = os.WriteFile(r.curPath, b, 0o644)
	}
}

// Eval counts an execution without the crash-attribution write (hot loops).
func (r *Run) Eval(i int) {
	r.mu.Lock()
	r.curCase = i
	r.P.Evaluations++
	r.caseStart()
	r.mu.Unlock()
}

func Hash(parts ...interface{}) string {
	h := sha1.New()
	for _, p := range parts {
		fmt.Fprintf(h, "%v|", p)
	}
	return hex.EncodeToString(h.Sum(nil)[:10])
}

// Distinct records one non-trivial case by its identity key.
func (r *Run) Distinct(key string) {
	r.mu.Lock()
	r.distinct[key] = struct{}{}
	r.mu.Unlock()
}

func (r *Run) Sample(v interface{}) {
	r.mu.Lock()
	if len(r.P.Samples) < r.maxSamp {
		r.P.Samples = append(r.P.Samples, v)
	}
	r.mu.Unlock()
}

func (r *Run) Count(name string, n int64) {
	r.mu.Lock()
	r.P.Counters[name] += n
	r.mu.Unlock()
}

func (r *Run) Max(name string, n int64) {
	r.mu.Lock()
	if n > r.P.Counters[name] {
		r.P.Counters[name] = n
	}
	r.mu.Unlock()
}

func (r *Run) Get(name string) int64 {
	r.mu.Lock()
	defer r.mu.Unlock()
	return r.P.Counters[name]
}

func (r *Run) Rule(s string)      { r.P.Rule = s }
func (r *Run) MinDistinct(n int)  { r.P.MinDistinct = n }
func (r *Run) Note(k, v string)   { r.mu.Lock(); r.P.Notes[k] = v; r.mu.Unlock() }
func (r *Run) Assume(s ...string) { r.P.Assumptions = append(r.P.Assumptions, s...) }
func (r *Run) CurrentCase() int   { r.mu.Lock(); defer r.mu.Unlock(); return r.curCase }
func (r *Run) NumViolations() int { r.mu.Lock(); defer r.mu.Unlock(); return len(r.viol) }
func (r *Run) Inconclusive(s string) {
	r.mu.Lock()
	if len(r.P.Inconclusive) < 20 {
		r.P.Inconclusive = append(r.P.Inconclusive, s)
	}
	r.mu.Unlock()
}

// Violation records a violation with a stable signature (property/clause:class).
// Only the first occurrence of a signature keeps its detail; the others are counted.
func (r *Run) Violation(sig, msg string, detail interface{}) {
	r.ViolationAt(r.CurrentCase(), sig, msg, detail)
}

func (r *Run) ViolationAt(i int, sig, msg string, detail interface{}) {
	r.mu.Lock()
	defer r.mu.Unlock()
	if v, ok := r.viol[sig]; ok {
		v.Count++
		return
	}
	v := &Violation{Property: r.P.Property, Engine: r.P.Engine, Sig: sig, Msg: msg, Seed: r.P.Seed,
		Case: i, Tier: r.P.Tier, Detail: detail, Count: 1}
	r.viol[sig] = v
	if os.Getenv("VERIF_VERBOSE") != "" {
		fmt.Fprintf(os.Stderr, "violation %s case=%d: %s\n", sig, i, msg)
	}
}

// Guard runs f and converts an escaping panic into a violation (sigOnPanic != "")
// or re-panics (sigOnPanic == ""). It returns true when f panicked.
func (r *Run) Guard(sigOnPanic string, detail interface{}, f func()) (panicked bool) {
	defer func() {
		if e := recover(); e != nil {
			panicked = true
			if sigOnPanic == "" {
				panic(e)
			}
			st := string(debug.Stack())
			r.Violation(sigOnPanic, fmt.Sprintf("panic escaped: %v", e), map[string]interface{}{"case": detail, "panic": fmt.Sprint(e), "stack": TrimStack(st)})
		}
	}()
	f()
	return false
}

// TrimStack keeps the frames that matter for a report.
func TrimStack(st string) []string {
	var out []string
	for _, l := range strings.Split(st, "\n") {
		l = strings.TrimSpace(l)
		if strings.Contains(l, "sentinel-golang") || strings.HasPrefix(l, "/repo/") {
			out = append(out, l)
		}
		if len(out) >= 24 {
			break
		}
	}
	return out
}

// Finish writes the partial evidence. The engine then exits 0.
func (r *Run) Finish() {
	r.mu.Lock()
	defer r.mu.Unlock()
	r.P.Distinct = len(r.distinct)
	sigs := make([]string, 0, len(r.viol))
	for s := range r.viol {
		sigs = append(sigs, s)
	}
	sort.Strings(sigs)
	r.P.Violations = r.P.Violations[:0]
	for _, s := range sigs {
		r.P.Violations = append(r.P.Violations, r.viol[s])
	}
	r.P.WallS = time.Since(r.start).Seconds()
	r.P.Done = true
	if r.P.Samples == nil {
		r.P.Samples = []interface{}{}
	}
	b, err := json.MarshalIndent(&r.P, "", " ")
	if err != nil {
		fmt.Fprintln(os.Stderr, "vk: cannot marshal partial:", err)
		os.Exit(3)
	}
	if r.outPath == "" {
		os.Stdout.Write(b)
		fmt.Println()
		return
	}
	if err := os.WriteFile(r.outPath, b, 0o644); err != nil {
		fmt.Fprintln(os.Stderr, "vk: cannot write partial:", err)
		os.Exit(3)
	}
	fmt.Fprintf(os.Stderr, "[%s/%s] evaluations=%d distinct=%d violations=%d inconclusive=%d wall=%.1fs\n",
		r.P.Property, r.P.Engine, r.P.Evaluations, r.P.Distinct, len(r.P.Violations), len(r.P.Inconclusive), r.P.WallS)
}

// Pick helpers -------------------------------------------------------------

func PickU32(rng *rand.Rand, xs ...uint32) uint32 { return xs[rng.Intn(len(xs))] }
func PickI(rng *rand.Rand, xs ...int) int         { return xs[rng.Intn(len(xs))] }
func PickI64(rng *rand.Rand, xs ...int64) int64   { return xs[rng.Intn(len(xs))] }
func PickF(rng *rand.Rand, xs ...float64) float64 { return xs[rng.Intn(len(xs))] }
func PickS(rng *rand.Rand, xs ...string) string   { return xs[rng.Intn(len(xs))] }
func Chance(rng *rand.Rand, p float64) bool       { return rng.Float64() < p }
