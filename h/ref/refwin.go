// Package ref holds the reference models. They are deliberately naive: plain
// maps and integer arithmetic, no clock, no concurrency.
package ref

// Event kinds mirror base.MetricEvent numerically (pass, block, complete, error, rt).
const (
	EvPass = iota
	EvBlock
	EvComplete
	EvError
	EvRt
	EvTotal
)

const DefaultMaxRt = int64(60000) // base.DefaultStatisticMaxRt

type agg struct {
	c       [EvTotal]int64
	minRt   int64
	maxConc int32
	touched bool
}

// Win is the aligned-bucket reference of one BucketLeapArray: every recorded
// amount is kept under the start of the (array-)bucket its timestamp selects.
// Nothing is ever evicted: "retention" is purely a matter of which bucket
// starts a read is allowed to look at.
type Win struct {
	L uint64 // bucket length of the underlying array (ms)
	N uint64 // bucket count of the underlying array
	b map[uint64]*agg
}

func NewWin(sampleCount, intervalMs uint32) *Win {
	return &Win{L: uint64(intervalMs / sampleCount), N: uint64(sampleCount), b: map[uint64]*agg{}}
}

func (w *Win) Align(t uint64) uint64 { return t - t%w.L }

func (w *Win) at(t uint64) *agg {
	s := w.Align(t)
	a := w.b[s]
	if a == nil {
		a = &agg{minRt: DefaultMaxRt}
		w.b[s] = a
	}
	a.touched = true
	return a
}

// Add records amount for event at time t (ms). EvRt also feeds min-rt.
func (w *Win) Add(t uint64, ev int, amount int64) {
	a := w.at(t)
	a.c[ev] += amount
	if ev == EvRt && amount < a.minRt {
		a.minRt = amount
	}
}

func (w *Win) Conc(t uint64, c int32) {
	a := w.at(t)
	if c > a.maxConc {
		a.maxConc = c
	}
}

// Range returns the first and last bucket start of the aligned window of
// length interval ending at the bucket that contains now. ok=false when the
// window would start before time zero is representable (never: it is clamped).
func (w *Win) Range(now uint64, interval uint64) (lo, hi uint64) {
	hi = w.Align(now)
	span := interval - w.L
	if span > hi {
		lo = 0
	} else {
		lo = hi - span
	}
	return
}

func (w *Win) each(now, interval uint64, f func(s uint64, a *agg)) {
	lo, hi := w.Range(now, interval)
	for s := lo; s <= hi; s += w.L {
		if a := w.b[s]; a != nil {
			f(s, a)
		}
		if s+w.L < s {
			break
		}
	}
}

func (w *Win) Sum(ev int, now, interval uint64) int64 {
	var t int64
	w.each(now, interval, func(_ uint64, a *agg) { t += a.c[ev] })
	return t
}

func (w *Win) MaxBucket(ev int, now, interval uint64) int64 {
	var m int64
	w.each(now, interval, func(_ uint64, a *agg) {
		if a.c[ev] > m {
			m = a.c[ev]
		}
	})
	return m
}

// MinRt: the minimum recorded rt in the window, DefaultMaxRt when none.
func (w *Win) MinRt(now, interval uint64) int64 {
	m := DefaultMaxRt
	w.each(now, interval, func(_ uint64, a *agg) {
		if a.minRt < m {
			m = a.minRt
		}
	})
	return m
}

func (w *Win) MaxConc(now, interval uint64) int32 {
	var m int32
	w.each(now, interval, func(_ uint64, a *agg) {
		if a.maxConc > m {
			m = a.maxConc
		}
	})
	return m
}

// Bucket returns the aggregated counters of the bucket starting at s.
func (w *Win) Bucket(s uint64) (c [EvTotal]int64, minRt int64, maxConc int32, ok bool) {
	a := w.b[s]
	if a == nil {
		return c, DefaultMaxRt, 0, false
	}
	return a.c, a.minRt, a.maxConc, true
}

// Prune drops buckets older than keep ms before now (memory only; callers use a
// keep far larger than any window).
func (w *Win) Prune(now, keep uint64) {
	if now < keep {
		return
	}
	for s := range w.b {
		if s+keep < now {
			delete(w.b, s)
		}
	}
}
