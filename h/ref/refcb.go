package ref

import "math"

// Breaker strategies (numerically equal to circuitbreaker.Strategy).
const (
	SlowRatio = 0
	ErrRatio  = 1
	ErrCount  = 2
)

// Breaker states (numerically equal to circuitbreaker.State).
const (
	Closed   = 0
	HalfOpen = 1
	Open     = 2
)

type CBRule struct {
	ID          string  `json:"id"`
	Strategy    int     `json:"strategy"`
	RetryMs     uint64  `json:"retry_ms"`
	MinReq      uint64  `json:"min_req"`
	StatMs      uint64  `json:"stat_ms"`
	Buckets     uint64  `json:"buckets"` // as configured (0 / non-dividing => 1)
	MaxRt       uint64  `json:"max_rt"`
	Threshold   float64 `json:"threshold"`
	ProbeNum    uint64  `json:"probe_num"`
}

type Transition struct {
	Rule string `json:"rule"`
	From int    `json:"from"`
	To   int    `json:"to"`
}

// CB is the breaker of the C03 statement: three states driven by completions and time.
type CB struct {
	R         CBRule
	State     int
	NextRetry uint64
	CurProbe  uint64
	L, N      uint64
	total     map[uint64]uint64
	bad       map[uint64]uint64
	// DontCare is set when a ratio landed inside the float-equality twilight zone
	DontCare bool
}

func NewCB(r CBRule) *CB {
	n := r.Buckets
	if n == 0 || r.StatMs%n != 0 {
		n = 1
	}
	return &CB{R: r, State: Closed, N: n, L: r.StatMs / n, total: map[uint64]uint64{}, bad: map[uint64]uint64{}}
}

func (b *CB) window(now uint64) (total, bad uint64) {
	cur := now - now%b.L
	for i := uint64(0); i < b.N; i++ {
		if cur < i*b.L {
			break
		}
		s := cur - i*b.L
		total += b.total[s]
		bad += b.bad[s]
	}
	return
}

func (b *CB) clearWindow(now uint64) {
	cur := now - now%b.L
	for i := uint64(0); i < b.N; i++ {
		if cur < i*b.L {
			break
		}
		s := cur - i*b.L
		delete(b.total, s)
		delete(b.bad, s)
	}
}

// TryPass: the request at time now asks this breaker. transitioned reports an
// Open->HalfOpen transition performed for this request.
func (b *CB) TryPass(now uint64, log *[]Transition) (pass, transitioned bool) {
	switch b.State {
	case Closed:
		return true, false
	case Open:
		if now >= b.NextRetry {
			b.State = HalfOpen
			*log = append(*log, Transition{b.R.ID, Open, HalfOpen})
			return true, true
		}
		return false, false
	default: // HalfOpen
		return b.R.ProbeNum > 0, false
	}
}

// RollBack: the request that moved this breaker to half-open ended up blocked.
func (b *CB) RollBack(log *[]Transition) {
	if b.State == HalfOpen {
		b.State = Open
		*log = append(*log, Transition{b.R.ID, HalfOpen, Open})
	}
}

func (b *CB) isBad(rt uint64, err bool) bool {
	if b.R.Strategy == SlowRatio {
		return rt > b.R.MaxRt
	}
	return err
}

// Complete: a passed request completes at time now with response time rt and error flag.
func (b *CB) Complete(now, rt uint64, err bool, log *[]Transition) {
	cur := now - now%b.L
	bad := b.isBad(rt, err)
	b.total[cur]++
	if bad {
		b.bad[cur]++
	}
	switch b.State {
	case Open:
		return
	case HalfOpen:
		if bad {
			b.State = Open
			b.CurProbe = 0
			b.NextRetry = now + b.R.RetryMs
			*log = append(*log, Transition{b.R.ID, HalfOpen, Open})
		} else {
			b.CurProbe++
			if b.R.ProbeNum == 0 || b.CurProbe >= b.R.ProbeNum {
				b.State = Closed
				b.CurProbe = 0
				*log = append(*log, Transition{b.R.ID, HalfOpen, Closed})
				b.clearWindow(now)
			}
		}
		return
	}
	total, nbad := b.window(now)
	if total < b.R.MinReq {
		return
	}
	trip := false
	if b.R.Strategy == ErrCount {
		trip = nbad >= uint64(b.R.Threshold)
	} else {
		ratio := float64(nbad) / float64(total)
		d := math.Abs(ratio - b.R.Threshold)
		if d > 1e-9 && d < 1e-7 {
			b.DontCare = true
		}
		trip = ratio > b.R.Threshold || d < 1e-8
	}
	if trip {
		b.State = Open
		b.NextRetry = now + b.R.RetryMs
		*log = append(*log, Transition{b.R.ID, Closed, Open})
	}
}
