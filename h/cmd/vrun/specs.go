package main

import "time"

const m = time.Minute

var specs = []Spec{
	{ID: "C08", Level: "exploration", MinDistinct: 50, Engines: []Engine{
		{Name: "seq", Pkg: "./mon/c08", Procs: 1},
	}},
}

func findSpec(id string) *Spec {
	for i := range specs {
		if specs[i].ID == id {
			return &specs[i]
		}
	}
	return nil
}
