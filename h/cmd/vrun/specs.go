package main

import "time"

const m = time.Minute

var specs = []Spec{
	{ID: "C01", Level: "exploration", MinDistinct: 50, Engines: []Engine{
		{Name: "seq", Pkg: "./mon/c01", Procs: 1},
		{Name: "par", Pkg: "./mon/c01par", Race: true, DeathSig: "C01/par:process-died"},
		{Name: "first", Pkg: "./mon/c01par", Env: []string{"VERIF_MODE=first"}, Par: true, RepeatQuick: 32, RepeatThorough: 320, DeathSig: "C01/first:process-died"},
	}},
	{ID: "C02", Level: "exploration", MinDistinct: 50, Engines: []Engine{
		{Name: "seq", Pkg: "./mon/c02", Procs: 1},
		{Name: "coop", Pkg: "./mon/chainco", Env: []string{"VERIF_PROP=C02"}},
		{Name: "par", Pkg: "./mon/parcap", Race: true, Env: []string{"VERIF_PROP=C02"}, DeathSig: "C02/par:process-died"},
	}},
	{ID: "C03", Level: "exploration", MinDistinct: 50, Engines: []Engine{
		{Name: "seq", Pkg: "./mon/c03", Procs: 1},
	}},
	{ID: "C04", Level: "exploration", MinDistinct: 50, Engines: []Engine{
		{Name: "seq", Pkg: "./mon/c04", Procs: 1},
		{Name: "coop", Pkg: "./mon/chainco", Env: []string{"VERIF_PROP=C04"}, Instr: []string{"core/stat/base_node.go"}},
		{Name: "par", Pkg: "./mon/parcap", Race: true, Env: []string{"VERIF_PROP=C04"}, DeathSig: "C04/par:process-died"},
	}},
	{ID: "C05", Level: "exploration", MinDistinct: 50, Engines: []Engine{
		{Name: "seq", Pkg: "./mon/c05", Procs: 1},
		{Name: "par", Pkg: "./mon/c05", Race: true, Env: []string{"VERIF_MODE=par"}, DeathSig: "C05/par:process-died"},
		{Name: "coop", Pkg: "./mon/c05", Env: []string{"VERIF_MODE=coop"}, Instr: []string{"core/hotspot/traffic_shaping.go", "core/hotspot/cache/concurrent_lru.go+sync"}},
	}},
	{ID: "C06", Level: "exploration", MinDistinct: 50, Engines: []Engine{
		{Name: "seq", Pkg: "./mon/c06", Procs: 1},
		{Name: "par", Pkg: "./mon/c06", Race: true, Env: []string{"VERIF_MODE=par"}, DeathSig: "C06/par:process-died"},
		{Name: "cons", Pkg: "./mon/c06", Env: []string{"VERIF_MODE=cons"}, Par: true, RepeatQuick: 4, RepeatThorough: 16, Instr: []string{"core/hotspot/concurrency_stat_slot.go", "core/hotspot/traffic_shaping.go", "core/hotspot/cache/concurrent_lru.go+sync"}},
		{Name: "coop", Pkg: "./mon/chainco", Env: []string{"VERIF_PROP=C06"}, Instr: []string{"core/hotspot/concurrency_stat_slot.go", "core/hotspot/traffic_shaping.go"}},
	}},
	{ID: "C07", Level: "exploration", MinDistinct: 50, Engines: []Engine{
		{Name: "seq", Pkg: "./mon/c07", Procs: 1},
		{Name: "par", Pkg: "./mon/parcap", Race: true, Env: []string{"VERIF_PROP=C07"}, DeathSig: "C07/par:process-died", RepeatQuick: 3, RepeatThorough: 6},
	}},
	{ID: "C08", Level: "exploration", MinDistinct: 50, Engines: []Engine{
		{Name: "seq", Pkg: "./mon/c08", Procs: 1},
	}},
}

func init() {
	specs = append(specs, Spec{ID: "C09", Level: "exploration", MinDistinct: 1000, Engines: []Engine{
		{Name: "coop", Pkg: "./mon/c09", Instr: []string{"core/stat/base/leap_array.go", "core/stat/base/bucket_leap_array.go", "core/stat/base/metric_bucket.go", "core/stat/base/mutex.go+sync", "core/stat/base/sliding_window_metric.go"}},
		{Name: "stress", Pkg: "./mon/c09", Race: true, Env: []string{"VERIF_MODE=stress"}, DeathSig: "C09/stress:process-died"},
	}})
	specs = append(specs, Spec{ID: "C10", Level: "exploration", MinDistinct: 1000, Engines: []Engine{
		{Name: "seq", Pkg: "./mon/c10", Procs: 1},
		{Name: "coop", Pkg: "./mon/c10", Instr: []string{"core/flow/tc_throttling.go"}, Env: []string{"VERIF_MODE=coop"}},
	}})
	specs = append(specs, Spec{ID: "C11", Level: "exploration", MinDistinct: 30, Engines: []Engine{
		{Name: "seq", Pkg: "./mon/c11", Procs: 1},
		{Name: "coop", Pkg: "./mon/c11", Env: []string{"VERIF_MODE=coop"}, Instr: []string{"core/flow/tc_warm_up.go"}},
		{Name: "coopmem", Pkg: "./mon/c11", Env: []string{"VERIF_MODE=coopmem"}, Par: true, RepeatQuick: 4, RepeatThorough: 16, Instr: []string{"core/system_metric/sys_metric_stat.go"}},
	}})
	specs = append(specs, Spec{ID: "C12", Level: "exploration", MinDistinct: 1000, Engines: []Engine{
		{Name: "coop", Pkg: "./mon/c12", Instr: []string{"core/circuitbreaker/circuit_breaker.go", "core/stat/base/leap_array.go", "core/stat/base/mutex.go+lockonly"}, WidenSkip: []string{"core/stat/base"}},
		{Name: "stress", Pkg: "./mon/c12", Race: true, Env: []string{"VERIF_MODE=stress"}, DeathSig: "C12/stress:process-died"},
	}})
	specs = append(specs, Spec{ID: "C13", Level: "exploration", MinDistinct: 50, Engines: []Engine{
		{Name: "seq", Pkg: "./mon/c13", Procs: 1},
	}})
	specs = append(specs, Spec{ID: "C17", Level: "fault_enumeration", MinDistinct: 20, Engines: []Engine{
		{Name: "seq", Pkg: "./mon/c17", Procs: 1},
	}})
	specs = append(specs, Spec{ID: "C18", Level: "exploration", MinDistinct: 50, Engines: []Engine{
		{Name: "seq", Pkg: "./mon/c18", Procs: 1},
		{Name: "file", Pkg: "./mon/c18", Env: []string{"VERIF_MODE=file"}, RepeatThorough: 5},
	}})
	specs = append(specs, Spec{ID: "C14", Level: "exploration", MinDistinct: 50, Engines: []Engine{
		{Name: "seq", Pkg: "./mon/c14", Procs: 1},
	}})
	specs = append(specs, Spec{ID: "C15", Level: "exploration", MinDistinct: 2, Engines: []Engine{
		{Name: "race", Pkg: "./mon/c15", Race: true, DeathSig: "C15/process-died", RepeatQuick: 1, RepeatThorough: 4},
		{Name: "coop", Pkg: "./mon/rulesco", Instr: []string{"core/flow/rule_manager.go+sync", "core/isolation/rule_manager.go+sync", "core/hotspot/rule_manager.go+sync", "core/circuitbreaker/rule_manager.go+sync", "core/circuitbreaker/circuit_breaker.go", "core/system/rule_manager.go+sync",
			"core/hotspot/cache/concurrent_lru.go+sync", "core/hotspot/traffic_shaping.go", "core/stat/base_node.go", "core/stat/node_storage.go+sync", "core/stat/base/leap_array.go", "core/stat/base/bucket_leap_array.go", "core/stat/base/mutex.go+lockonly"}},
	}})
	specs = append(specs, Spec{ID: "C16", Level: "exploration", MinDistinct: 50, Engines: []Engine{
		{Name: "seq", Pkg: "./mon/c16", Procs: 1},
	}})
}

func init() {
	specs = append(specs, Spec{ID: "C20", Level: "exploration", MinDistinct: 50, Engines: []Engine{
		{Name: "seq", Pkg: "./mon/c20", Procs: 1, DeathSig: "C20/process-died"},
		{Name: "recycle", Pkg: "./mon/c20", Env: []string{"VERIF_MODE=recycle"}, DeathSig: "C20/process-died"},
	}})
}

// Single-threaded engines (GOMAXPROCS=1 monitors and the cooperative scheduler) are repeated with different
// seeds, one process per core: 4 repetitions in the quick tier, 16 in the thorough tier.
func init() {
	for i := range specs {
		for j := range specs[i].Engines {
			e := &specs[i].Engines[j]
			if e.Race || e.Custom != nil || !(e.Procs == 1 || e.Name == "coop") {
				continue
			}
			e.Par = true
			if e.RepeatQuick == 0 {
				e.RepeatQuick = 4
			}
			if e.RepeatThorough == 0 {
				e.RepeatThorough = 16
			}
		}
	}
}

func findSpec(id string) *Spec {
	for i := range specs {
		if specs[i].ID == id {
			return &specs[i]
		}
	}
	return nil
}
