package main

// Engines borrowed from other properties. Some realistic changes to the code of one property only show under the
// conditions another property's monitor creates (a concurrent rule reload, concurrent probes of a breaker, ...):
// the borrowing property's statement is violated all the same (e.g. a request passing a block-all flow rule while
// the rules are being reloaded breaks C02's "admitted tokens never exceed T"), so its check runs that engine too.
// The violation signatures keep the prefix of the monitor that produced them.
var borrowed = []struct {
	dst, src, engine string
	env              string // extra environment for the borrowed engine (restricts it to the workload the borrower needs)
}{
	{"C02", "C15", "coop", ""},                               // flow rule switches under live traffic
	{"C13", "C15", "coop", ""},                               // concurrent loads / clears: reported == enforced
	{"C14", "C15", "coop", ""},                               // an unchanged rule must stay in force while the list is being rebuilt
	{"C07", "C15", "coop", ""},                               // concurrent loads of the system rule set: what is remembered as loaded is what gates inbound traffic
	{"C03", "C12", "coop", ""},                               // the breaker's state machine under concurrent callers
	{"C02", "C09", "coop", ""},                               // the window a reject rule reads must not lose / invent tokens around a bucket rollover
	{"C15", "C14", "seq", ""},                                // "updating the rules of one resource never affects decisions on another": loads / clears of a referenced resource
	{"C16", "C01", "par", ""},                                // "told of completion exactly once" also when Exit is called from two goroutines at once
	{"C08", "C09", "coop", ""},                               // "nothing inside the window is lost" also when the rollover is contended
	{"C07", "C01", "par", ""},                                // the inbound in-flight count the rules read stays exact (never negative) also when a rule check panics
	{"C07", "C01", "first", ""},                              // ... and from the very first inbound requests of a process on
	{"C07", "C09", "coop", ""},                               // the inbound QPS / RT windows the rules read lose nothing around a contended bucket rollover
	{"C12", "C03", "seq", "VERIF_C03_FAMILY=modify"},         // "no half-open before a full retry timeout" also when the rule of an open breaker is modified (that family only: the reference machine of C03 admits the probe AT the deadline, which C12 does not ask for)
	{"C04", "C15", "coop", "VERIF_RULESCO_MODULE=isolation"}, // "rejected iff in-flight + b > N" while rules of OTHER resources are loaded and cleared (isolation module only)
	{"C05", "C14", "seq", "VERIF_C14_FAMILY=hotspot"},        // "scheduled at least duration/threshold apart" also across a reload that keeps the rule's statistic (hot-parameter families only)
}

func init() {
	for _, b := range borrowed {
		src, dst := findSpec(b.src), findSpec(b.dst)
		if src == nil || dst == nil {
			panic("borrow: unknown spec " + b.src + " / " + b.dst)
		}
		for _, e := range src.Engines {
			if e.Name == b.engine {
				e.Name = b.src + "." + b.engine
				if b.env != "" {
					e.Env = append(append([]string(nil), e.Env...), b.env)
				}
				dst.Engines = append(dst.Engines, e)
			}
		}
	}
}
