package main

import (
	"fmt"
	"os"
	"path/filepath"
	"regexp"
	"sort"
	"strings"

	"verif/vk"
)

var frameRe = regexp.MustCompile(`^\s+(\S+)\(`)

// scanRaceLogs parses the race detector log files of one engine process. Every
// "WARNING: DATA RACE" block becomes a violation whose signature is the pair of
// innermost sentinel-golang functions of the two racing accesses (line numbers
// stripped), so reports are de-duplicated across runs and a new racing pair is a
// new signature.
func scanRaceLogs(c *ctx, e *Engine, rep int, seed int64) ([]*vk.Violation, int) {
	files, _ := filepath.Glob(filepath.Join(c.scratch, fmt.Sprintf("race-%s-%d.*", e.Name, rep)))
	var out []*vk.Violation
	for _, f := range files {
		b, err := os.ReadFile(f)
		if err != nil {
			continue
		}
		blocks := strings.Split(string(b), "WARNING: DATA RACE")
		for _, blk := range blocks[1:] {
			if i := strings.Index(blk, "=================="); i >= 0 {
				blk = blk[:i]
			}
			// split into stacks: paragraphs separated by blank lines
			paras := strings.Split(blk, "\n\n")
			var fns []string
			for pi, p := range paras {
				if pi >= 2 {
					break
				}
				fn := "?"
				for _, l := range strings.Split(p, "\n") {
					m := frameRe.FindStringSubmatch(l)
					if m == nil {
						continue
					}
					name := m[1]
					if strings.Contains(name, "sentinel-golang/") {
						fn = name[strings.Index(name, "sentinel-golang/")+len("sentinel-golang/"):]
						break
					}
				}
				fns = append(fns, fn)
			}
			for len(fns) < 2 {
				fns = append(fns, "?")
			}
			sort.Strings(fns)
			if fns[0] == "?" && fns[1] == "?" {
				// a race entirely inside the monitor or the runtime: not a finding about the repo,
				// but never silently dropped either
				out = append(out, &vk.Violation{Property: c.spec.ID, Engine: e.Name, Sig: c.spec.ID + "/race-outside-repo",
					Msg: "race report without a sentinel-golang frame (monitor bug?)", Seed: seed, Case: -1, Tier: c.tier,
					Detail: strings.Split(tail(blk, 3000), "\n"), Count: 1})
				continue
			}
			sig := fmt.Sprintf("%s/race:%s|%s", c.spec.ID, fns[0], fns[1])
			out = append(out, &vk.Violation{Property: c.spec.ID, Engine: e.Name, Sig: sig,
				Msg: "data race reported by the Go race detector between " + fns[0] + " and " + fns[1], Seed: seed, Case: -1, Tier: c.tier,
				Detail: strings.Split(tail(blk, 5000), "\n"), Count: 1})
		}
	}
	return out, len(files)
}
