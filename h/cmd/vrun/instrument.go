package main

import (
	"encoding/json"
	"fmt"
	"go/parser"
	"go/token"
	"os"
	"path/filepath"
	"strconv"
	"strings"
)

// instrument rewrites, for each /repo-relative file, the import "sync/atomic"
// into verif/vatomic (keeping the local name `atomic`), writes the result into
// dir and returns the path of a go build -overlay file. The rewrite is derived
// from whatever the file contains now, so edited sources are instrumented too.
func instrument(dir string, files []string) (string, error) {
	if err := os.MkdirAll(dir, 0o755); err != nil {
		return "", err
	}
	replace := map[string]string{}
	for i, rel := range files {
		// "<file>+sync": also swap package sync for verif/vsync (lock acquisitions become yield points)
		// "<file>+lockonly": swap package sync only (the file's own atomics stay invisible to the monitor's trace)
		lockOnly := strings.HasSuffix(rel, "+lockonly")
		rel = strings.TrimSuffix(rel, "+lockonly")
		// package sync is swapped in every listed file that imports it ("+sync" is the historical way to say so): a
		// refactor that trades atomics for a mutex must not leave a worker blocked on a lock whose holder is parked
		withSync := true
		rel = strings.TrimSuffix(rel, "+sync")
		src := filepath.Join(repoDir, rel)
		if _, err := os.Stat(src); os.IsNotExist(err) {
			// the file was renamed / merged by a refactor: nothing to shim here; a monitor that then sees no
			// atomic events reports inconclusive (too few scheduling points), never a violation
			continue
		}
		fset := token.NewFileSet()
		f, err := parser.ParseFile(fset, src, nil, parser.ImportsOnly)
		if err != nil {
			return "", err
		}
		raw, err := os.ReadFile(src)
		if err != nil {
			return "", err
		}
		// textual edit of the import spec only: line numbers and everything else stay as they are
		type edit struct {
			from, to int
			text     string
		}
		var edits []edit
		for _, imp := range f.Imports {
			p, _ := strconv.Unquote(imp.Path.Value)
			if p == "sync/atomic" && !lockOnly {
				name := "atomic"
				from := fset.Position(imp.Path.Pos()).Offset
				if imp.Name != nil {
					name = imp.Name.Name
					from = fset.Position(imp.Name.Pos()).Offset
				}
				to := fset.Position(imp.Path.End()).Offset
				edits = append(edits, edit{from, to, name + " " + strconv.Quote("verif/vatomic")})
			}
			if p == "sync" && withSync {
				name := "sync"
				from := fset.Position(imp.Path.Pos()).Offset
				if imp.Name != nil {
					name = imp.Name.Name
					from = fset.Position(imp.Name.Pos()).Offset
				}
				to := fset.Position(imp.Path.End()).Offset
				edits = append(edits, edit{from, to, name + " " + strconv.Quote("verif/vsync")})
			}
		}
		if len(edits) == 0 {
			// nothing to shim in this file (a refactor may have moved the accesses): skip it
			continue
		}
		for j := len(edits) - 1; j >= 0; j-- {
			e := edits[j]
			raw = append(raw[:e.from:e.from], append([]byte(e.text), raw[e.to:]...)...)
		}
		out := filepath.Join(dir, fmt.Sprintf("%d_%s", i, strings.ReplaceAll(rel, "/", "_")))
		if err := os.WriteFile(out, raw, 0o644); err != nil {
			return "", err
		}
		replace[src] = out
	}
	ov := filepath.Join(dir, "overlay.json")
	b, _ := json.Marshal(map[string]interface{}{"Replace": replace})
	if err := os.WriteFile(ov, b, 0o644); err != nil {
		return "", err
	}
	return ov, nil
}
