// vrun is the driver behind ./run.sh: it rebuilds the monitor engines of one
// property against /repo's current working tree, runs each in a child process,
// merges what they observed into /verif/evidence/<ID>.json and prints the
// verdict lines of the interface (VIOLATION / KNOWN-FINDING / INCONCLUSIVE).
//
//	vrun <ID> quick|thorough
//	vrun replay <replay.json>
//
// Exit status: 0 held (or only listed known findings), 1 unlisted violation,
// 2 inconclusive (build failure, watchdog, engine died where death is not
// itself a violation, too little observed).
package main

import (
	"bytes"
	"context"
	"encoding/json"
	"fmt"
	"os"
	"os/exec"
	"path/filepath"
	"runtime"
	"sort"
	"strconv"
	"strings"
	"sync"
	"syscall"
	"time"

	"verif/vk"
)

// verifDir is the directory run.sh lives in (VERIF_DIR, exported by run.sh): /verif, or a snapshot of it.
var verifDir = func() string {
	if d := os.Getenv("VERIF_DIR"); d != "" {
		return d
	}
	return "/verif"
}()

// repoDir is the tree under test: /repo, or (for trying seeded changes without touching /repo)
// a scratch worktree named by VERIF_REPO. The registered commands never set VERIF_REPO.
var repoDir = func() string {
	if d := os.Getenv("VERIF_REPO"); d != "" {
		return d
	}
	return "/repo"
}()

// outBase: evidence and replay files of runs against a scratch tree go elsewhere, so that the
// committed evidence only ever comes from /repo itself.
func outBase() string {
	if repoDir == "/repo" {
		return verifDir
	}
	return "/var/tmp/verif-seed-out"
}

// modfileArgs returns -modfile=... pointing at a copy of h/go.mod whose replace directive
// names repoDir when that is not /repo.
func (c *ctx) modfileArgs() []string {
	if repoDir == "/repo" {
		return nil
	}
	mf := filepath.Join(c.scratch, "alt.mod")
	if _, err := os.Stat(mf); err != nil {
		b, _ := os.ReadFile(filepath.Join(verifDir, "h", "go.mod"))
		_ = os.WriteFile(mf, bytes.Replace(b, []byte("=> /repo"), []byte("=> "+repoDir), 1), 0o644)
		sum, _ := os.ReadFile(filepath.Join(verifDir, "h", "go.sum"))
		_ = os.WriteFile(filepath.Join(c.scratch, "alt.sum"), sum, 0o644)
	}
	return []string{"-modfile=" + mf}
}

type Engine struct {
	Name  string
	Pkg   string   // package dir relative to /verif/h, e.g. ./mon/c08
	Race  bool     // build with -race and scan race logs
	Instr []string // /repo-relative files whose sync/atomic import is swapped for verif/vatomic
	Env   []string // extra environment
	Procs int      // GOMAXPROCS (0 = all cores)
	// Repeat: number of processes run (seed offset i) per tier.
	RepeatQuick, RepeatThorough   int
	TimeoutQuick, TimeoutThorough time.Duration
	// DeathSig != "": the process dying (fatal error, escaped panic) is itself a
	// violation with this signature prefix; otherwise it is inconclusive.
	DeathSig string
	// Custom, when set, replaces build+run (adapters). It must write the partial.
	Custom func(c *ctx, e *Engine, rep int, out, cur, logf string) error
	Tags   string
	// Par: the engine is single-threaded (GOMAXPROCS=1 or the cooperative scheduler) and keeps its files under
	// VERIF_SCRATCH_DIR, so its repetitions (different seeds) run concurrently, one per core.
	Par bool
	// WidenSkip: package directories that the "whole package" instrumentation fallback leaves as listed (their other
	// files contain accesses the engine's trace oracle would mistake for the ones it follows).
	WidenSkip []string
}

type Spec struct {
	ID      string
	Level   string
	Engines []Engine
	// MinDistinct: fewer distinct non-trivial cases than this over all engines => inconclusive.
	MinDistinct int
}

type ctx struct {
	spec    *Spec
	tier    string
	seed    int64
	scratch string
	start   time.Time
}

type KnownFindings struct {
	Open []struct {
		Property string `json:"property"`
		Sig      string `json:"sig"`
		What     string `json:"what"`
	} `json:"open"`
	Fixed []string `json:"fixed"`
}

func loadKnown() KnownFindings {
	var k KnownFindings
	b, err := os.ReadFile(filepath.Join(verifDir, "known_findings.json"))
	if err == nil {
		_ = json.Unmarshal(b, &k)
	}
	return k
}

func goEnv() []string {
	env := os.Environ()
	env = append(env, "GOFLAGS=-mod=mod", "GOPROXY=off", "GOSUMDB=off", "GOTOOLCHAIN=local", "CGO_ENABLED=1")
	return env
}

func main() {
	if len(os.Args) < 3 {
		fmt.Fprintln(os.Stderr, "usage: vrun <ID> quick|thorough | vrun replay <file>")
		os.Exit(2)
	}
	if os.Args[1] == "replay" {
		os.Exit(replay(os.Args[2]))
	}
	id, tier := os.Args[1], os.Args[2]
	if tier != "thorough" {
		tier = "quick"
	}
	spec := findSpec(id)
	if spec == nil {
		fmt.Fprintf(os.Stderr, "unknown property %s\n", id)
		os.Exit(2)
	}
	seed := int64(1)
	if s := os.Getenv("VERIF_SEED"); s != "" {
		if v, err := strconv.ParseInt(s, 10, 64); err == nil {
			seed = v
		}
	}
	os.Exit(runSpec(spec, tier, seed, -1, "", true))
}

func mkScratch() string {
	base := os.Getenv("VERIF_SCRATCH")
	if base == "" {
		base = "/var/tmp"
	}
	_ = os.MkdirAll(base, 0o755)
	d, err := os.MkdirTemp(base, "verif-")
	if err != nil {
		fmt.Fprintln(os.Stderr, "cannot create scratch:", err)
		os.Exit(2)
	}
	return d
}

// syncSum keeps the harness go.sum a superset of the repo's.
func syncSum() {
	src, err := os.ReadFile(filepath.Join(repoDir, "go.sum"))
	if err != nil {
		return
	}
	dstPath := filepath.Join(verifDir, "h", "go.sum")
	dst, _ := os.ReadFile(dstPath)
	have := map[string]bool{}
	for _, l := range strings.Split(string(dst), "\n") {
		have[l] = true
	}
	var add []string
	for _, l := range strings.Split(string(src), "\n") {
		if l != "" && !have[l] {
			add = append(add, l)
		}
	}
	if len(add) > 0 {
		f, err := os.OpenFile(dstPath, os.O_APPEND|os.O_WRONLY|os.O_CREATE, 0o644)
		if err == nil {
			f.WriteString(strings.Join(add, "\n") + "\n")
			f.Close()
		}
	}
}

func (c *ctx) build(e *Engine) (string, error) {
	bin := filepath.Join(c.scratch, "bin-"+e.Name)
	args := []string{"build", "-o", bin}
	args = append(args, c.modfileArgs()...)
	if e.Race {
		args = append(args, "-race")
	}
	if e.Tags != "" {
		args = append(args, "-tags", e.Tags)
	}
	if len(e.Instr) > 0 && os.Getenv("VERIF_NOSHIM") == "" { // VERIF_NOSHIM: self-test of the "no yield points" path
		ov, err := instrument(filepath.Join(c.scratch, "instr-"+e.Name), e.Instr)
		if err != nil {
			return "", fmt.Errorf("instrument: %w", err)
		}
		args = append(args, "-overlay", ov)
	}
	args = append(args, e.Pkg)
	cmd := exec.Command("go", args...)
	cmd.Dir = filepath.Join(verifDir, "h")
	cmd.Env = goEnv()
	var buf bytes.Buffer
	cmd.Stdout, cmd.Stderr = &buf, &buf
	if err := cmd.Run(); err != nil {
		return "", fmt.Errorf("go %s: %v\n%s", strings.Join(args, " "), err, tail(buf.String(), 4000))
	}
	return bin, nil
}

func tail(s string, n int) string {
	if len(s) > n {
		return "..." + s[len(s)-n:]
	}
	return s
}

type engineResult struct {
	partials []*vk.Partial
	inconcl  []string
	deaths   []*vk.Violation
	races    []*vk.Violation
	raceLogs int
}

// runEngine runs the engine; when its observability calibration found no shimmed access (the code was moved out of
// the instrumented files by a refactor) it is run once more with every non-test file of the same package directories
// instrumented, so that a move between files of one package does not leave the check inconclusive.
func (c *ctx) runEngine(e *Engine, onlyCase int) *engineResult {
	if len(e.Instr) > 0 && os.Getenv("VERIF_WIDEN") != "" {
		w := *e
		w.Instr = widen(e.Instr, e.WidenSkip)
		return c.runEngineOnce(&w, onlyCase)
	}
	res := c.runEngineOnce(e, onlyCase)
	if len(e.Instr) == 0 || len(res.partials) == 0 {
		return res
	}
	blind := false
	for _, s := range res.inconcl {
		if strings.Contains(s, "observability:") {
			blind = true
		}
	}
	for _, p := range res.partials {
		if len(p.Violations) > 0 {
			blind = false
		}
	}
	if !blind {
		return res
	}
	w := *e
	w.Instr = widen(e.Instr, e.WidenSkip)
	if len(w.Instr) == len(e.Instr) {
		return res
	}
	fmt.Printf("engine %s: no shimmed access in %v; retrying with the whole package directories instrumented\n", e.Name, e.Instr)
	return c.runEngineOnce(&w, onlyCase)
}

// widen returns the instrumentation list extended by every non-test .go file of the directories it names.
func widen(instr []string, skip []string) []string {
	out := []string{}
	for _, f := range instr {
		if !strings.Contains(f, "+") && !contains(skip, filepath.Dir(f)) {
			f += "+sync"
		}
		out = append(out, f)
	}
	have := map[string]bool{}
	dirs := []string{}
	seenDir := map[string]bool{}
	for _, f := range instr {
		f = strings.TrimSuffix(strings.TrimSuffix(f, "+sync"), "+lockonly")
		have[f] = true
		if d := filepath.Dir(f); !seenDir[d] && !contains(skip, d) {
			seenDir[d] = true
			dirs = append(dirs, d)
		}
	}
	for _, d := range dirs {
		ents, err := os.ReadDir(filepath.Join(repoDir, d))
		if err != nil {
			continue
		}
		for _, en := range ents {
			n := en.Name()
			if en.IsDir() || !strings.HasSuffix(n, ".go") || strings.HasSuffix(n, "_test.go") {
				continue
			}
			if f := filepath.Join(d, n); !have[f] {
				have[f] = true
				out = append(out, f+"+sync") // (lock acquisitions too: the moved code may have traded its atomics for a mutex)
			}
		}
	}
	return out
}

func contains(l []string, s string) bool {
	for _, x := range l {
		if x == s {
			return true
		}
	}
	return false
}

func (c *ctx) runEngineOnce(e *Engine, onlyCase int) *engineResult {
	res := &engineResult{}
	var bin string
	if e.Custom == nil {
		var err error
		bin, err = c.build(e)
		if err != nil {
			res.inconcl = append(res.inconcl, fmt.Sprintf("engine %s: build failed: %v", e.Name, err))
			return res
		}
	}
	rep := e.RepeatQuick
	to := e.TimeoutQuick
	if c.tier == "thorough" {
		rep, to = e.RepeatThorough, e.TimeoutThorough
	}
	if rep <= 0 {
		rep = 1
	}
	if to <= 0 {
		to = 8 * time.Minute
		if c.tier == "thorough" {
			to = 6 * time.Hour
		}
	}
	if onlyCase >= 0 {
		rep = 1
	}
	replayDir := filepath.Join(outBase(), "replays", c.spec.ID)
	_ = os.MkdirAll(replayDir, 0o755)
	var mu sync.Mutex
	runRep := func(i int) {
		out := filepath.Join(c.scratch, fmt.Sprintf("%s-%d.json", e.Name, i))
		cur := filepath.Join(replayDir, fmt.Sprintf("current-%s-%d.json", e.Name, i))
		logf := filepath.Join(c.scratch, fmt.Sprintf("%s-%d.log", e.Name, i))
		_ = os.Remove(cur)
		defer os.Remove(cur)
		repScratch := filepath.Join(c.scratch, fmt.Sprintf("rep-%s-%d", e.Name, i))
		_ = os.MkdirAll(repScratch, 0o755)
		seed := c.seed + int64(i)*1000003
		var runErr error
		timedOut := false
		if e.Custom != nil {
			runErr = e.Custom(c, e, i, out, cur, logf)
		} else {
			cx, cancel := context.WithTimeout(context.Background(), to)
			cmd := exec.CommandContext(cx, bin)
			cmd.Cancel = func() error { return cmd.Process.Signal(syscall.SIGQUIT) }
			cmd.WaitDelay = 20 * time.Second
			cmd.Dir = repScratch
			env := append(goEnv(), e.Env...)
			env = append(env, "VERIF_OUT="+out, "VERIF_CUR="+cur, "VERIF_TIER="+c.tier,
				"VERIF_SEED="+strconv.FormatInt(seed, 10), "VERIF_SCRATCH_DIR="+repScratch, "VERIF_REP="+strconv.Itoa(i))
			if onlyCase >= 0 {
				env = append(env, "VERIF_ONLY_CASE="+strconv.Itoa(onlyCase))
			}
			if e.Procs > 0 {
				env = append(env, "GOMAXPROCS="+strconv.Itoa(e.Procs))
			}
			if e.Race {
				env = append(env, "GORACE=halt_on_error=0 history_size=4 log_path="+filepath.Join(c.scratch, fmt.Sprintf("race-%s-%d", e.Name, i)))
			}
			cmd.Env = env
			lf, _ := os.Create(logf)
			cmd.Stdout, cmd.Stderr = lf, lf
			runErr = cmd.Run()
			lf.Close()
			timedOut = cx.Err() == context.DeadlineExceeded
			cancel()
		}
		var p vk.Partial
		b, rerr := os.ReadFile(out)
		ok := rerr == nil && json.Unmarshal(b, &p) == nil && p.Done
		mu.Lock()
		defer mu.Unlock()
		if ok {
			// (an engine borrowed from another property keeps its monitor's own name inside the partial)
			p.Engine = e.Name
			for _, v := range p.Violations {
				v.Engine = e.Name
			}
			res.partials = append(res.partials, &p)
			for _, s := range p.Inconclusive {
				res.inconcl = append(res.inconcl, fmt.Sprintf("engine %s: %s", e.Name, s))
			}
		} else {
			logTail := ""
			if lb, err := os.ReadFile(logf); err == nil {
				logTail = tail(string(lb), 6000)
			}
			curDesc := json.RawMessage("null")
			if cb, err := os.ReadFile(cur); err == nil && json.Valid(cb) {
				curDesc = cb
			}
			switch {
			case timedOut:
				res.inconcl = append(res.inconcl, fmt.Sprintf("engine %s rep %d: wall-clock watchdog (%s) fired", e.Name, i, to))
				keepLog(replayDir, e.Name, logf)
			case e.DeathSig != "":
				kind := classifyDeath(logTail)
				res.deaths = append(res.deaths, &vk.Violation{Property: c.spec.ID, Engine: e.Name,
					Sig: e.DeathSig + ":" + kind, Msg: fmt.Sprintf("monitor process died (%v): %s", runErr, kind), Seed: seed, Case: -1, Tier: c.tier,
					Detail: map[string]interface{}{"current_case": curDesc, "log_tail": strings.Split(logTail, "\n")}, Count: 1})
			default:
				res.inconcl = append(res.inconcl, fmt.Sprintf("engine %s rep %d: process ended without a result (%v); log tail: %s", e.Name, i, runErr, tail(logTail, 1500)))
				keepLog(replayDir, e.Name, logf)
			}
		}
		if e.Race {
			rv, n := scanRaceLogs(c, e, i, seed)
			res.races = append(res.races, rv...)
			res.raceLogs += n
		}
	}
	par := 1
	if e.Par && !e.Race && e.Custom == nil {
		par = runtime.NumCPU()
	}
	sem := make(chan struct{}, par)
	var wg sync.WaitGroup
	for i := 0; i < rep; i++ {
		i := i
		sem <- struct{}{}
		wg.Add(1)
		go func() {
			defer func() { <-sem; wg.Done() }()
			runRep(i)
		}()
	}
	wg.Wait()
	// deterministic order of the merged results whatever the completion order
	sort.SliceStable(res.partials, func(a, b int) bool { return res.partials[a].Seed < res.partials[b].Seed })
	return res
}

func keepLog(dir, name, logf string) {
	if b, err := os.ReadFile(logf); err == nil {
		_ = os.WriteFile(filepath.Join(dir, "lastlog-"+name+".txt"), []byte(tail(string(b), 200000)), 0o644)
	}
}

func classifyDeath(log string) string {
	for _, l := range strings.Split(log, "\n") {
		l = strings.TrimSpace(l)
		switch {
		case strings.HasPrefix(l, "fatal error:"):
			return strings.ReplaceAll(strings.TrimPrefix(l, "fatal error: "), " ", "-")
		case strings.HasPrefix(l, "panic:"):
			s := strings.TrimPrefix(l, "panic: ")
			if len(s) > 60 {
				s = s[:60]
			}
			return "panic:" + strings.ReplaceAll(s, " ", "-")
		}
	}
	return "unknown"
}

func runSpec(spec *Spec, tier string, seed int64, onlyCase int, onlyEngine string, writeEv bool) int {
	c := &ctx{spec: spec, tier: tier, seed: seed, scratch: mkScratch(), start: time.Now()}
	defer os.RemoveAll(c.scratch)
	syncSum()
	known := loadKnown()

	var partials []*vk.Partial
	var inconcl []string
	var viols []*vk.Violation
	raceLogs := 0
	for i := range spec.Engines {
		e := &spec.Engines[i]
		if onlyEngine != "" && e.Name != onlyEngine {
			continue
		}
		r := c.runEngine(e, onlyCase)
		partials = append(partials, r.partials...)
		inconcl = append(inconcl, r.inconcl...)
		viols = append(viols, r.deaths...)
		viols = append(viols, r.races...)
		raceLogs += r.raceLogs
	}
	// merge
	ev := map[string]interface{}{}
	cov := map[string]interface{}{}
	evals, distinct := 0, 0
	var rules []string
	var samples []interface{}
	counters := map[string]int64{}
	assum := map[string]bool{}
	perEngine := map[string]map[string]interface{}{}
	seenRule := map[string]bool{}
	for _, p := range partials {
		evals += p.Evaluations
		pe := perEngine[p.Engine]
		if pe == nil {
			pe = map[string]interface{}{"evaluations": 0, "distinct_nontrivial": 0, "runs": 0}
			perEngine[p.Engine] = pe
		}
		pe["evaluations"] = pe["evaluations"].(int) + p.Evaluations
		// distinct keys are per process; repeats of one engine use different seeds, so the
		// conservative merge is the maximum over repeats, summed over engines.
		if p.Distinct > pe["distinct_nontrivial"].(int) {
			pe["distinct_nontrivial"] = p.Distinct
		}
		pe["runs"] = pe["runs"].(int) + 1
		if p.Rule != "" && !seenRule[p.Engine] {
			seenRule[p.Engine] = true
			rules = append(rules, "["+p.Engine+"] "+p.Rule)
		}
		if len(samples) < 6 {
			for _, s := range p.Samples {
				if len(samples) < 6 {
					samples = append(samples, map[string]interface{}{"engine": p.Engine, "case": s})
				}
			}
		}
		for k, v := range p.Counters {
			counters[p.Engine+"."+k] += v
		}
		for _, a := range p.Assumptions {
			assum[a] = true
		}
		viols = append(viols, p.Violations...)
	}
	for _, pe := range perEngine {
		distinct += pe["distinct_nontrivial"].(int)
	}
	if raceLogs > 0 || hasRace(spec) {
		counters["race_log_files_scanned"] = int64(raceLogs)
	}
	if spec.MinDistinct > 0 && distinct < spec.MinDistinct && writeEv && len(viols) == 0 {
		inconcl = append(inconcl, fmt.Sprintf("only %d distinct non-trivial cases observed (floor %d)", distinct, spec.MinDistinct))
	}

	// verdicts
	knownSig := map[string]string{}
	for _, k := range known.Open {
		if k.Property == spec.ID {
			knownSig[k.Sig] = k.What
		}
	}
	bySig := map[string]*vk.Violation{}
	var sigs []string
	for _, v := range viols {
		if o, ok := bySig[v.Sig]; ok {
			o.Count += v.Count
			continue
		}
		bySig[v.Sig] = v
		sigs = append(sigs, v.Sig)
	}
	sort.Strings(sigs)
	replayDir := filepath.Join(outBase(), "replays", spec.ID)
	_ = os.MkdirAll(replayDir, 0o755)
	newV, knownV := 0, 0
	var vlist []map[string]interface{}
	for _, s := range sigs {
		v := bySig[s]
		path := filepath.Join(replayDir, sanitize(s)+".json")
		b, _ := json.MarshalIndent(v, "", " ")
		_ = os.WriteFile(path, b, 0o644)
		entry := map[string]interface{}{"sig": s, "msg": v.Msg, "count": v.Count, "engine": v.Engine, "replay": path}
		if what, ok := knownSig[s]; ok {
			knownV++
			entry["known_finding"] = true
			fmt.Printf("KNOWN-FINDING: property=%s %s [%s] (seen %d×)\n", spec.ID, what, s, v.Count)
		} else {
			newV++
			fmt.Printf("VIOLATION property=%s replay=%s sig=%s :: %s\n", spec.ID, path, s, oneLine(v.Msg))
		}
		vlist = append(vlist, entry)
	}
	for _, s := range inconcl {
		fmt.Printf("INCONCLUSIVE property=%s %s\n", spec.ID, oneLine(s))
	}

	if evals < 1 {
		evals = 0
	}
	cov["evaluations"] = evals
	cov["distinct_nontrivial"] = distinct
	cov["rule"] = strings.Join(rules, " || ")
	if samples == nil {
		samples = []interface{}{}
	}
	cov["samples"] = samples
	cov["per_engine"] = perEngine
	cov["counters"] = counters
	cov["violation_list"] = vlist
	cov["known_findings_seen"] = knownV
	cov["inconclusive"] = inconcl
	verdict := "held-on-observed"
	if newV > 0 {
		verdict = "violated"
	} else if len(inconcl) > 0 {
		verdict = "inconclusive"
	}
	cov["verdict"] = verdict
	ev["property_id"] = spec.ID
	ev["tier"] = tier
	ev["seed"] = seed
	ev["level"] = spec.Level
	ev["coverage"] = cov
	var al []string
	for a := range assum {
		al = append(al, a)
	}
	sort.Strings(al)
	if al == nil {
		al = []string{}
	}
	ev["assumptions"] = al
	ev["wall_s"] = time.Since(c.start).Seconds()
	ev["violations"] = newV
	if writeEv {
		b, _ := json.MarshalIndent(ev, "", " ")
		_ = os.MkdirAll(filepath.Join(outBase(), "evidence"), 0o755)
		if err := os.WriteFile(filepath.Join(outBase(), "evidence", spec.ID+".json"), append(b, '\n'), 0o644); err != nil {
			fmt.Printf("INCONCLUSIVE property=%s cannot write evidence: %v\n", spec.ID, err)
			return 2
		}
	}
	fmt.Printf("SUMMARY property=%s tier=%s seed=%d verdict=%s evaluations=%d distinct=%d new_violations=%d known=%d inconclusive=%d wall=%.1fs\n",
		spec.ID, tier, seed, verdict, evals, distinct, newV, knownV, len(inconcl), time.Since(c.start).Seconds())
	switch {
	case newV > 0:
		return 1
	case len(inconcl) > 0:
		return 2
	}
	return 0
}

func hasRace(s *Spec) bool {
	for _, e := range s.Engines {
		if e.Race {
			return true
		}
	}
	return false
}

func oneLine(s string) string {
	s = strings.ReplaceAll(s, "\n", " ")
	if len(s) > 400 {
		s = s[:400] + "…"
	}
	return s
}

func sanitize(s string) string {
	var b strings.Builder
	for _, r := range s {
		switch {
		case r >= 'a' && r <= 'z', r >= 'A' && r <= 'Z', r >= '0' && r <= '9', r == '-', r == '_', r == '.':
			b.WriteRune(r)
		default:
			b.WriteByte('_')
		}
	}
	out := b.String()
	if len(out) > 120 {
		out = out[:100] + "-" + vk.Hash(s)
	}
	return out
}

func replay(path string) int {
	b, err := os.ReadFile(path)
	if err != nil {
		fmt.Fprintln(os.Stderr, err)
		return 2
	}
	var v vk.Violation
	if err := json.Unmarshal(b, &v); err != nil {
		fmt.Fprintln(os.Stderr, err)
		return 2
	}
	spec := findSpec(v.Property)
	if spec == nil {
		fmt.Fprintln(os.Stderr, "unknown property", v.Property)
		return 2
	}
	fmt.Printf("replaying property=%s engine=%s seed=%d case=%d tier=%s sig=%s\n", v.Property, v.Engine, v.Seed, v.Case, v.Tier, v.Sig)
	// the per-process seed already contains the repeat offset
	return runSpec(spec, v.Tier, v.Seed, v.Case, v.Engine, false)
}
