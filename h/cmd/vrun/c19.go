package main

import (
	"bytes"
	"context"
	"encoding/json"
	"fmt"
	"go/ast"
	"go/parser"
	"go/token"
	"os"
	"os/exec"
	"path/filepath"
	"regexp"
	"sort"
	"strings"
	"sync"
	"time"

	"verif/vk"
)

// C19: the adapters are separate Go modules with their own (pinned) dependency
// closure. Their monitors are _test.go files kept under /verif/adapters/<name>/,
// injected next to the adapter's sources with `go test -overlay` (nothing is
// written into /repo) together with the shared helper, and run with the
// adapter's own go.mod.

var entryPointRe = regexp.MustCompile(`(Middleware|Interceptor|Wrapper|Limiter|Filter|Resolver)`)

type c19Adapter struct {
	name, dir, pkg string
}

func c19Adapters() []c19Adapter {
	var out []c19Adapter
	ents, _ := os.ReadDir(filepath.Join(verifDir, "adapters"))
	for _, e := range ents {
		if !e.IsDir() || strings.HasPrefix(e.Name(), "_") {
			continue
		}
		dir := filepath.Join(repoDir, "pkg", "adapters", e.Name())
		if _, err := os.Stat(dir); err != nil {
			continue
		}
		out = append(out, c19Adapter{name: e.Name(), dir: dir})
	}
	return out
}

// exportedEntryPoints lists the exported constructors of an adapter package (non-test files).
func exportedEntryPoints(dir string) (pkg string, names []string) {
	fset := token.NewFileSet()
	pkgs, err := parser.ParseDir(fset, dir, func(fi os.FileInfo) bool { return !strings.HasSuffix(fi.Name(), "_test.go") }, 0)
	if err != nil {
		return "", nil
	}
	for name, p := range pkgs {
		pkg = name
		for _, f := range p.Files {
			for _, d := range f.Decls {
				fd, ok := d.(*ast.FuncDecl)
				if !ok || !fd.Name.IsExported() {
					continue
				}
				n := fd.Name.Name
				if fd.Recv != nil {
					// exported methods that are entry points (go-zero: (*SentinelRouteMiddleware).Handle)
					if n == "Handle" || entryPointRe.MatchString(n) {
						names = append(names, recvName(fd)+"."+n)
					}
					continue
				}
				if strings.HasPrefix(n, "With") || strings.HasPrefix(n, "Default") || !entryPointRe.MatchString(n) {
					continue
				}
				names = append(names, n)
			}
		}
	}
	sort.Strings(names)
	return
}

func recvName(fd *ast.FuncDecl) string {
	if len(fd.Recv.List) == 0 {
		return "?"
	}
	t := fd.Recv.List[0].Type
	if s, ok := t.(*ast.StarExpr); ok {
		t = s.X
	}
	if id, ok := t.(*ast.Ident); ok {
		return id.Name
	}
	return "?"
}

type c19Result struct {
	Adapter    string   `json:"adapter"`
	Cases      int      `json:"cases"`
	Distinct   []string `json:"distinct"`
	Violations []struct {
		Sig    string      `json:"sig"`
		Msg    string      `json:"msg"`
		Detail interface{} `json:"detail"`
	} `json:"violations"`
	Samples      []string `json:"samples"`
	EntryPoints  []string `json:"entry_points"`
	Inconclusive []string `json:"inconclusive"`
}

func c19Custom(c *ctx, e *Engine, rep int, out, cur, logf string) error {
	start := time.Now()
	adapters := c19Adapters()
	resDir := filepath.Join(c.scratch, "c19-out")
	_ = os.MkdirAll(resDir, 0o755)
	helper, err := os.ReadFile(filepath.Join(verifDir, "adapters", "_helper", "helper_test.go.tmpl"))
	if err != nil {
		return err
	}
	p := vk.Partial{Property: "C19", Engine: e.Name, Tier: c.tier, Seed: c.seed, Counters: map[string]int64{}, Notes: map[string]string{}}
	p.Rule = "case = (adapter entry point, scenario default-rejection / configured-fallback / resource-extractor ..., admitted or blocked by a zero-threshold flow rule, handler ok / error / panic) driven in-process through the real framework; per request the Sentinel events recorded by a StatSlot on the global chain must be [passed, completed] with exactly one handler invocation, zero residual concurrency and a traced error where the adapter can see it, or [blocked] with no handler invocation and the fallback / default rejection produced. distinct = distinct (entry point, scenario, blocked, handler) combinations."
	p.Assumptions = []string{"each adapter is built with its own go.mod (pinned sentinel-golang core from the module cache, or ../../../ for kratos / micro)", "hertz and kitex do not compile with the installed Go toolchain (bytedance/sonic) and are not observed"}
	var mu sync.Mutex
	var wg sync.WaitGroup
	var logs bytes.Buffer
	sem := make(chan struct{}, 8)
	distinct := map[string]bool{}
	for _, a := range adapters {
		a := a
		wg.Add(1)
		go func() {
			defer wg.Done()
			sem <- struct{}{}
			defer func() { <-sem }()
			pkg, exported := exportedEntryPoints(a.dir)
			if pkg == "" {
				mu.Lock()
				p.Inconclusive = append(p.Inconclusive, "adapter "+a.name+": cannot parse package")
				mu.Unlock()
				return
			}
			odir := filepath.Join(c.scratch, "c19-ov-"+a.name)
			_ = os.MkdirAll(odir, 0o755)
			hp := filepath.Join(odir, "helper_test.go")
			_ = os.WriteFile(hp, bytes.Replace(helper, []byte("package PKGNAME"), []byte("package "+pkg), 1), 0o644)
			repl := map[string]string{filepath.Join(a.dir, "verif_c19_helper_test.go"): hp}
			tests, _ := filepath.Glob(filepath.Join(verifDir, "adapters", a.name, "*_test.go"))
			for _, tf := range tests {
				repl[filepath.Join(a.dir, "verif_"+filepath.Base(tf))] = tf
			}
			ov := filepath.Join(odir, "overlay.json")
			b, _ := json.Marshal(map[string]interface{}{"Replace": repl})
			_ = os.WriteFile(ov, b, 0o644)
			cx, cancel := context.WithTimeout(context.Background(), 15*time.Minute)
			defer cancel()
			cmd := exec.CommandContext(cx, "go", "test", "-mod=mod", "-vet=off", "-count=1", "-run", "TestVerifC19", "-overlay", ov, ".")
			cmd.Dir = a.dir
			cmd.Env = append(goEnv(), "VERIF_C19_OUT="+resDir)
			var buf bytes.Buffer
			cmd.Stdout, cmd.Stderr = &buf, &buf
			runErr := cmd.Run()
			mu.Lock()
			defer mu.Unlock()
			fmt.Fprintf(&logs, "==== %s (err=%v)\n%s\n", a.name, runErr, tail(buf.String(), 3000))
			var r c19Result
			rb, rerr := os.ReadFile(filepath.Join(resDir, a.name+".json"))
			if rerr != nil || json.Unmarshal(rb, &r) != nil {
				p.Inconclusive = append(p.Inconclusive, fmt.Sprintf("adapter %s: no result (go test: %v): %s", a.name, runErr, tail(buf.String(), 600)))
				return
			}
			p.Evaluations += r.Cases
			for _, d := range r.Distinct {
				distinct[a.name+"|"+d] = true
			}
			for _, v := range r.Violations {
				p.Violations = append(p.Violations, &vk.Violation{Property: "C19", Engine: e.Name, Sig: v.Sig, Msg: v.Msg, Seed: c.seed, Case: -1, Tier: c.tier, Count: 1})
			}
			for _, s := range r.Samples {
				if len(p.Samples) < 4 {
					p.Samples = append(p.Samples, a.name+": "+s)
				}
			}
			p.Counters["cases."+a.name] = int64(r.Cases)
			// every exported entry point needs a driver
			have := map[string]bool{}
			for _, ep := range r.EntryPoints {
				have[ep] = true
			}
			for _, ex := range exported {
				if !have[ex] {
					p.Inconclusive = append(p.Inconclusive, fmt.Sprintf("adapter %s: exported entry point %s has no driver", a.name, ex))
				}
			}
			p.Counters["entry_points."+a.name] = int64(len(exported))
			if runErr != nil && len(r.Violations) == 0 {
				p.Inconclusive = append(p.Inconclusive, fmt.Sprintf("adapter %s: go test failed without a recorded violation: %s", a.name, tail(buf.String(), 600)))
			}
		}()
	}
	wg.Wait()
	_ = os.WriteFile(logf, logs.Bytes(), 0o644)
	p.Distinct = len(distinct)
	p.WallS = time.Since(start).Seconds()
	p.Done = true
	if p.Samples == nil {
		p.Samples = []interface{}{}
	}
	// de-duplicate violations by signature
	seen := map[string]*vk.Violation{}
	var vs []*vk.Violation
	for _, v := range p.Violations {
		if o, ok := seen[v.Sig]; ok {
			o.Count++
			continue
		}
		seen[v.Sig] = v
		vs = append(vs, v)
	}
	p.Violations = vs
	b, _ := json.MarshalIndent(&p, "", " ")
	return os.WriteFile(out, b, 0o644)
}

func init() {
	specs = append(specs, Spec{ID: "C19", Level: "exploration", MinDistinct: 10, Engines: []Engine{
		{Name: "adapters", Custom: c19Custom},
	}})
}
