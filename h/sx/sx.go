// Package sx holds small helpers shared by the monitors that drive the core
// sentinel-golang module (quiet logger, common imports).
package sx

import (
	"github.com/alibaba/sentinel-golang/core/stat"
	"github.com/alibaba/sentinel-golang/logging"

	"verif/vk"
)

type nullLogger struct{}

func (nullLogger) Debug(string, ...interface{})        {}
func (nullLogger) DebugEnabled() bool                  { return false }
func (nullLogger) Info(string, ...interface{})         {}
func (nullLogger) InfoEnabled() bool                   { return false }
func (nullLogger) Warn(string, ...interface{})         {}
func (nullLogger) WarnEnabled() bool                   { return false }
func (nullLogger) Error(error, string, ...interface{}) {}
func (nullLogger) ErrorEnabled() bool                  { return false }

// Quiet silences the library's console logger (it logs every recovered panic
// and every rule load, which would swamp the monitor's own output).
func Quiet() {
	_ = logging.ResetGlobalLogger(nullLogger{})
	// every case works on resources with fresh names and clears its rules when it ends: between cases the statistic
	// nodes of finished cases can go (a rule binds to the node of its resource when it is loaded, so this must only
	// happen while no rule of a live case exists - which is what "start of a case" means in every monitor)
	vk.CaseHook = stat.ResetResourceNodeMap
}
