// Package sx holds small helpers shared by the monitors that drive the core
// sentinel-golang module (quiet logger, common imports).
package sx

import (
	"github.com/alibaba/sentinel-golang/logging"
)

type nullLogger struct{}

func (nullLogger) Debug(string, ...interface{})        {}
func (nullLogger) DebugEnabled() bool                  { return false }
func (nullLogger) Info(string, ...interface{})         {}
func (nullLogger) InfoEnabled() bool                   { return false }
func (nullLogger) Warn(string, ...interface{})         {}
func (nullLogger) WarnEnabled() bool                   { return false }
func (nullLogger) Error(error, string, ...interface{}) {}
func (nullLogger) ErrorEnabled() bool                  { return false }

// Quiet silences the library's console logger (it logs every recovered panic
// and every rule load, which would swamp the monitor's own output).
func Quiet() { _ = logging.ResetGlobalLogger(nullLogger{}) }
