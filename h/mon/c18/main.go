// C18 monitor: datasource property handlers (five JSON parsers) fed with generated
// payload sequences (valid arrays, null / wrongly typed elements, truncations,
// empty input, redelivery), wire round trip against a hand-written encoder, and
// the refreshable file datasource under write / truncate / rename / remove events.
package main

import (
	"fmt"
	"math/rand"
	"os"
	"path/filepath"
	"reflect"
	"sort"
	"strconv"
	"strings"
	"time"

	cb "github.com/alibaba/sentinel-golang/core/circuitbreaker"
	"github.com/alibaba/sentinel-golang/core/flow"
	"github.com/alibaba/sentinel-golang/core/hotspot"
	"github.com/alibaba/sentinel-golang/core/isolation"
	"github.com/alibaba/sentinel-golang/core/system"
	"github.com/alibaba/sentinel-golang/ext/datasource"
	fileds "github.com/alibaba/sentinel-golang/ext/datasource/file"
	"github.com/fsnotify/fsnotify"

	"verif/sx"
	"verif/vclock"
	"verif/vk"
)

// gen is one generated rule: its wire JSON (hand-written encoder, literal field
// names of the documented wire format), the canonical string of the rule it
// describes, and the monitor's own validity verdict.
type gen struct {
	ID    string
	JSON  string
	Canon string
	Valid bool
	// Edit returns the same rule with exactly one scalar field (not the id, not the resource) changed
	Edit func(rng *rand.Rand) gen
}

func withEdit[T any](r T, enc func(T) gen) gen {
	g := enc(r)
	g.Edit = func(rng *rand.Rand) gen {
		r2 := r
		tweak(&r2, rng)
		return withEdit(r2, enc)
	}
	return g
}

// tweak changes one scalar field of the rule struct p points to.
func tweak(p interface{}, rng *rand.Rand) {
	v := reflect.ValueOf(p).Elem()
	p0 := v.Type().PkgPath()
	p0 = p0[strings.LastIndex(p0, "/")+1:]
	var cand []int
	// fields that are documented as meaningless under the rule's control behaviour are left alone: a module may keep
	// the old (equivalent) rule object when only such a field differs, and then reports the old value
	behaviour := ""
	if f := v.FieldByName("ControlBehavior"); f.IsValid() {
		behaviour = fmt.Sprint(f.Interface())
	}
	for i := 0; i < v.NumField(); i++ {
		n := v.Type().Field(i).Name
		if (n == "BurstCount" && behaviour != "Reject") || (n == "MaxQueueingTimeMs" && behaviour != "Throttling") {
			continue
		}
		// the field that makes every generated rule unique (it counts up from rule to rule) stays as it is: one more
		// would turn the rule into a twin of its neighbour that differs in the id only, and the managers keep the old
		// controller - old rule object, old id - of a rule that is equal in every field but the id
		if (p0 == "flow" && n == "MaxQueueingTimeMs") || (p0 == "circuitbreaker" && n == "RetryTimeoutMs") || (p0 == "hotspot" && n == "ParamsMaxCapacity") {
			continue
		}
		if n == "ID" || n == "Id" || n == "Resource" || n == "ParamKey" || !v.Field(i).CanSet() { // (the hot-parameter wire format has no parameter key)
			continue
		}
		if v.Field(i).Type().PkgPath() != "" {
			continue // an enumeration: its other members are drawn by the generator, whose validity model knows them
		}
		switch v.Field(i).Kind() {
		case reflect.Int, reflect.Int32, reflect.Int64, reflect.Uint32, reflect.Uint64, reflect.Float64, reflect.Bool, reflect.String:
			cand = append(cand, i)
		}
	}
	if len(cand) == 0 {
		return
	}
	f := v.Field(cand[rng.Intn(len(cand))])
	switch f.Kind() {
	case reflect.Int, reflect.Int32, reflect.Int64:
		f.SetInt(f.Int() + 1)
	case reflect.Uint32, reflect.Uint64:
		f.SetUint(f.Uint() + 1)
	case reflect.Float64:
		f.SetFloat(f.Float() + 0.25)
	case reflect.Bool:
		f.SetBool(!f.Bool())
	case reflect.String:
		f.SetString(f.String() + "x")
	}
}

type parserMod struct {
	name    string
	handler func() datasource.PropertyHandler
	clear   func()
	state   func() []string // canonical strings of the rules in force
	genRule func(rng *rand.Rand, id string) gen
}

var uid int

func nid() string { uid++; return fmt.Sprintf("w%d", uid) }

func q(s string) string  { return strconv.Quote(s) }
func f(x float64) string { return strconv.FormatFloat(x, 'g', -1, 64) }

func flowMod() *parserMod {
	m := &parserMod{name: "flow"}
	m.handler = func() datasource.PropertyHandler {
		return datasource.NewFlowRulesHandler(datasource.FlowRuleJsonArrayParser)
	}
	m.clear = func() { flow.ClearRules() }
	canon := func(r flow.Rule) string { return fmt.Sprintf("%+v", r) }
	m.state = func() []string {
		var o []string
		for _, r := range flow.GetRules() {
			o = append(o, canon(r))
		}
		return o
	}
	m.genRule = func(rng *rand.Rand, id string) gen {
		r := flow.Rule{ID: id, Resource: "ds-flow-" + vk.PickS(rng, "a", "b"), Threshold: vk.PickF(rng, 0, 1, 2.5, 100),
			TokenCalculateStrategy: flow.TokenCalculateStrategy(vk.PickI(rng, 0, 0, 1)), ControlBehavior: flow.ControlBehavior(vk.PickI(rng, 0, 0, 1)),
			RelationStrategy: flow.RelationStrategy(vk.PickI(rng, 0, 0, 1)), MaxQueueingTimeMs: uint32(uid), WarmUpPeriodSec: uint32(vk.PickI(rng, 0, 5, 10)),
			WarmUpColdFactor: uint32(vk.PickI(rng, 0, 1, 3, 5)), StatIntervalInMs: uint32(vk.PickI(rng, 0, 1000, 2000, 300))}
		if r.RelationStrategy == flow.AssociatedResource && rng.Intn(4) != 0 {
			r.RefResource = "ds-flow-ref"
		}
		if rng.Intn(8) == 0 {
			r.Threshold = -1
		}
		if rng.Intn(12) == 0 {
			r.Resource = ""
		}
		return withEdit(r, func(r flow.Rule) gen {
			valid := r.Resource != "" && r.Threshold >= 0 && !(r.RelationStrategy == flow.AssociatedResource && r.RefResource == "") &&
				!(r.TokenCalculateStrategy == flow.WarmUp && (r.WarmUpPeriodSec == 0 || r.WarmUpColdFactor == 1))
			js := "{" + strings.Join([]string{
				`"id":` + q(r.ID), `"resource":` + q(r.Resource), `"tokenCalculateStrategy":` + strconv.Itoa(int(r.TokenCalculateStrategy)),
				`"controlBehavior":` + strconv.Itoa(int(r.ControlBehavior)), `"threshold":` + f(r.Threshold), `"relationStrategy":` + strconv.Itoa(int(r.RelationStrategy)),
				`"refResource":` + q(r.RefResource), `"maxQueueingTimeMs":` + strconv.Itoa(int(r.MaxQueueingTimeMs)), `"warmUpPeriodSec":` + strconv.Itoa(int(r.WarmUpPeriodSec)),
				`"warmUpColdFactor":` + strconv.Itoa(int(r.WarmUpColdFactor)), `"statIntervalInMs":` + strconv.Itoa(int(r.StatIntervalInMs)),
				`"lowMemUsageThreshold":` + strconv.FormatInt(r.LowMemUsageThreshold, 10), `"highMemUsageThreshold":` + strconv.FormatInt(r.HighMemUsageThreshold, 10),
				`"memLowWaterMarkBytes":` + strconv.FormatInt(r.MemLowWaterMarkBytes, 10), `"memHighWaterMarkBytes":` + strconv.FormatInt(r.MemHighWaterMarkBytes, 10)}, ",") + "}"
			return gen{ID: id, JSON: js, Canon: canon(r), Valid: valid}
		})
	}
	return m
}

func isolationMod() *parserMod {
	m := &parserMod{name: "isolation"}
	m.handler = func() datasource.PropertyHandler {
		return datasource.NewIsolationRulesHandler(datasource.IsolationRuleJsonArrayParser)
	}
	m.clear = func() { isolation.ClearRules() }
	canon := func(r isolation.Rule) string { return fmt.Sprintf("%+v", r) }
	m.state = func() []string {
		var o []string
		for _, r := range isolation.GetRules() {
			o = append(o, canon(r))
		}
		return o
	}
	m.genRule = func(rng *rand.Rand, id string) gen {
		r := isolation.Rule{ID: id, Resource: "ds-iso-" + vk.PickS(rng, "a", "b"), MetricType: isolation.MetricType(vk.PickI(rng, 0, 0, 0, 1)), Threshold: uint32(vk.PickI(rng, 0, 1, 5, 4000000000))}
		if rng.Intn(12) == 0 {
			r.Resource = ""
		}
		return withEdit(r, func(r isolation.Rule) gen {
			valid := r.Resource != "" && r.MetricType == isolation.Concurrency && r.Threshold != 0
			js := fmt.Sprintf(`{"id":%s,"resource":%s,"metricType":%d,"threshold":%d}`, q(r.ID), q(r.Resource), r.MetricType, r.Threshold)
			return gen{ID: id, JSON: js, Canon: canon(r), Valid: valid}
		})
	}
	return m
}

func systemMod() *parserMod {
	m := &parserMod{name: "system"}
	m.handler = func() datasource.PropertyHandler {
		return datasource.NewSystemRulesHandler(datasource.SystemRuleJsonArrayParser)
	}
	m.clear = func() { system.ClearRules() }
	canon := func(r system.Rule) string { return fmt.Sprintf("%+v", r) }
	m.state = func() []string {
		var o []string
		for _, r := range system.GetRules() {
			o = append(o, canon(r))
		}
		return o
	}
	m.genRule = func(rng *rand.Rand, id string) gen {
		r := system.Rule{ID: id, MetricType: system.MetricType(vk.PickI(rng, 0, 1, 2, 3, 4, 7)), TriggerCount: vk.PickF(rng, -1, 0, 0.5, 1, 1.5, 1e6), Strategy: system.AdaptiveStrategy(vk.PickI(rng, -1, 1))}
		return withEdit(r, func(r system.Rule) gen {
			valid := r.TriggerCount >= 0 && r.MetricType < system.MetricTypeSize && !(r.MetricType == system.CpuUsage && r.TriggerCount > 1)
			js := fmt.Sprintf(`{"id":%s,"metricType":%d,"triggerCount":%s,"strategy":%d}`, q(r.ID), r.MetricType, f(r.TriggerCount), r.Strategy)
			return gen{ID: id, JSON: js, Canon: canon(r), Valid: valid}
		})
	}
	return m
}

func cbMod() *parserMod {
	m := &parserMod{name: "circuitbreaker"}
	m.handler = func() datasource.PropertyHandler {
		return datasource.NewCircuitBreakerRulesHandler(datasource.CircuitBreakerRuleJsonArrayParser)
	}
	m.clear = func() { cb.ClearRules() }
	canon := func(r cb.Rule) string { return fmt.Sprintf("%+v", r) }
	m.state = func() []string {
		var o []string
		for _, r := range cb.GetRules() {
			o = append(o, canon(r))
		}
		return o
	}
	m.genRule = func(rng *rand.Rand, id string) gen {
		r := cb.Rule{Id: id, Resource: "ds-cb-" + vk.PickS(rng, "a", "b"), Strategy: cb.Strategy(rng.Intn(3)), RetryTimeoutMs: uint32(1 + uid), MinRequestAmount: uint64(rng.Intn(10)),
			StatIntervalMs: uint32(vk.PickI(rng, 0, 1000, 10000)), StatSlidingWindowBucketCount: uint32(vk.PickI(rng, 0, 1, 10, 3)), MaxAllowedRtMs: uint64(vk.PickI(rng, 0, 50)),
			Threshold: vk.PickF(rng, -1, 0, 0.5, 1, 1.5, 10), ProbeNum: uint64(rng.Intn(3))}
		if rng.Intn(10) == 0 {
			r.RetryTimeoutMs = 0
		}
		if rng.Intn(12) == 0 {
			r.Resource = ""
		}
		return withEdit(r, func(r cb.Rule) gen {
			valid := r.Resource != "" && r.StatIntervalMs > 0 && r.RetryTimeoutMs > 0 && r.Threshold >= 0 &&
				!((r.Strategy == cb.SlowRequestRatio || r.Strategy == cb.ErrorRatio) && r.Threshold > 1)
			js := fmt.Sprintf(`{"id":%s,"resource":%s,"strategy":%d,"retryTimeoutMs":%d,"minRequestAmount":%d,"statIntervalMs":%d,"statSlidingWindowBucketCount":%d,"maxAllowedRtMs":%d,"threshold":%s,"probeNum":%d}`,
				q(r.Id), q(r.Resource), r.Strategy, r.RetryTimeoutMs, r.MinRequestAmount, r.StatIntervalMs, r.StatSlidingWindowBucketCount, r.MaxAllowedRtMs, f(r.Threshold), r.ProbeNum)
			return gen{ID: id, JSON: js, Canon: canon(r), Valid: valid}
		})
	}
	return m
}

func canonHot(r hotspot.Rule) string {
	var items []string
	for k, v := range r.SpecificItems {
		items = append(items, fmt.Sprintf("%T:%v=%d", k, k, v))
	}
	sort.Strings(items)
	r.SpecificItems = nil
	return fmt.Sprintf("%+v items=%v", r, items)
}

func hotspotMod() *parserMod {
	m := &parserMod{name: "hotspot"}
	m.handler = func() datasource.PropertyHandler {
		return datasource.NewHotSpotParamRulesHandler(datasource.HotSpotParamRuleJsonArrayParser)
	}
	m.clear = func() { hotspot.ClearRules() }
	m.state = func() []string {
		var o []string
		for _, r := range hotspot.GetRules() {
			o = append(o, canonHot(r))
		}
		return o
	}
	m.genRule = func(rng *rand.Rand, id string) gen {
		r := hotspot.Rule{ID: id, Resource: "ds-hot-" + vk.PickS(rng, "a", "b"), MetricType: hotspot.MetricType(vk.PickI(rng, 0, 1, 1)), ControlBehavior: hotspot.ControlBehavior(vk.PickI(rng, 0, 0, 1)),
			ParamIndex: vk.PickI(rng, 0, 1, -1), Threshold: int64(vk.PickI(rng, -1, 0, 5, 100)), MaxQueueingTimeMs: int64(vk.PickI(rng, 0, 10, -1)), BurstCount: int64(vk.PickI(rng, 0, 3, -1)),
			DurationInSec: int64(vk.PickI(rng, 0, 1, 1, 10)), ParamsMaxCapacity: int64(10000 + uid)}
		if rng.Intn(12) == 0 {
			r.Resource = ""
		}
		var items []string
		r.SpecificItems = map[interface{}]int64{}
		for i, n := 0, rng.Intn(4); i < n; i++ {
			thr := int64(rng.Intn(50))
			if rng.Intn(6) == 0 {
				thr = vk.PickI64(rng, 1<<31, 5000000000, 1<<40)
			}
			switch rng.Intn(4) {
			case 0:
				v := rng.Intn(1000) - 100
				if rng.Intn(3) == 0 {
					// values outside the int32 range (ids, timestamps): int items are platform ints
					v = int(vk.PickI64(rng, 3000000000, -3000000000, 1<<40, 2147483648, -2147483649, 4294967296,
						// 64-bit ids: not representable as a float64 (odd above 2^53), and the ends of the int64 range
						1234567890123456789, 9007199254740993, -9007199254740993, 9223372036854775807, -9223372036854775808, 1<<62+1))
				}
				r.SpecificItems[v] = thr
				items = append(items, fmt.Sprintf(`{"valKind":0,"valStr":%s,"threshold":%d}`, q(strconv.Itoa(v)), thr))
			case 1:
				v := vk.PickS(rng, "alice", "bob", "", "x y", "ünï")
				r.SpecificItems[v] = thr
				items = append(items, fmt.Sprintf(`{"valKind":1,"valStr":%s,"threshold":%d}`, q(v), thr))
			case 2:
				v := rng.Intn(2) == 0
				r.SpecificItems[v] = thr
				items = append(items, fmt.Sprintf(`{"valKind":2,"valStr":%s,"threshold":%d}`, q(strconv.FormatBool(v)), thr))
			default:
				v := vk.PickF(rng, 1.5, 0.25, 100, -3.125, 0.00001)
				r.SpecificItems[v] = thr
				items = append(items, fmt.Sprintf(`{"valKind":3,"valStr":%s,"threshold":%d}`, q(f(v)), thr))
			}
		}
		return withEdit(r, func(r hotspot.Rule) gen {
			valid := r.Resource != "" && r.Threshold >= 0 && !(r.MetricType == hotspot.QPS && r.DurationInSec <= 0) &&
				!(r.ControlBehavior == hotspot.Reject && r.BurstCount < 0) && !(r.ControlBehavior == hotspot.Throttling && r.MaxQueueingTimeMs < 0)
			js := fmt.Sprintf(`{"id":%s,"resource":%s,"metricType":%d,"controlBehavior":%d,"paramIndex":%d,"threshold":%d,"maxQueueingTimeMs":%d,"burstCount":%d,"durationInSec":%d,"paramsMaxCapacity":%d,"specificItems":[%s]}`,
				q(r.ID), q(r.Resource), r.MetricType, r.ControlBehavior, r.ParamIndex, r.Threshold, r.MaxQueueingTimeMs, r.BurstCount, r.DurationInSec, r.ParamsMaxCapacity, strings.Join(items, ","))
			if rng.Intn(2) == 0 {
				// the same rule written sparsely: fields holding their zero value (and an empty item list) are left out,
				// as hand-written configuration does - whatever an earlier payload said in the same position
				parts := []string{`"id":` + q(r.ID)}
				add := func(name string, v int64) {
					if v != 0 {
						parts = append(parts, fmt.Sprintf(`"%s":%d`, name, v))
					}
				}
				if r.Resource != "" {
					parts = append(parts, `"resource":`+q(r.Resource))
				}
				add("metricType", int64(r.MetricType))
				add("controlBehavior", int64(r.ControlBehavior))
				add("paramIndex", int64(r.ParamIndex))
				add("threshold", r.Threshold)
				add("maxQueueingTimeMs", r.MaxQueueingTimeMs)
				add("burstCount", r.BurstCount)
				add("durationInSec", r.DurationInSec)
				add("paramsMaxCapacity", r.ParamsMaxCapacity)
				if len(items) > 0 {
					parts = append(parts, `"specificItems":[`+strings.Join(items, ",")+`]`)
				}
				js = "{" + strings.Join(parts, ",") + "}"
			}
			return gen{ID: id, JSON: js, Canon: canonHot(r), Valid: valid}
		})
	}
	return m
}

type delivery struct {
	Kind    string `json:"kind"`
	Payload string `json:"payload"`
}

type caseDesc struct {
	Module string     `json:"module"`
	Steps  []delivery `json:"deliveries"`
	FailAt int        `json:"fail_at"`
	Note   string     `json:"note,omitempty"`
}

var run *vk.Run

func eqSets(a, b []string) bool {
	a = append([]string(nil), a...)
	b = append([]string(nil), b...)
	sort.Strings(a)
	sort.Strings(b)
	return strings.Join(a, "\n") == strings.Join(b, "\n")
}

func runCase(idx int, m *parserMod, rng *rand.Rand) *caseDesc {
	c := &caseDesc{Module: m.name}
	m.clear()
	h := m.handler()
	var model []string // canonical strings expected in force
	lastDecodable := "\x00none"
	n := 4 + rng.Intn(10)
	var lastValidPayload string
	var lastValidCanon []string
	var lastGens, mkGens []gen // the rules of the last valid-array delivery / of the last mk call
	fail := func(i int, clause, msg string) {
		c.FailAt = i
		c.Note = msg
		run.Violation("C18/"+m.name+"/"+clause, fmt.Sprintf("[%s] delivery %d (%s): %s", m.name, i, c.Steps[i].Kind, msg), c)
	}
	for i := 0; i < n; i++ {
		var d delivery
		decodable := true
		var want []string
		mk := func(withNull bool) (string, []string) {
			var parts []string
			var canon []string
			mkGens = nil
			for j, k := 0, rng.Intn(5); j < k; j++ {
				g := m.genRule(rng, nid())
				mkGens = append(mkGens, g)
				parts = append(parts, g.JSON)
				if g.Valid {
					canon = append(canon, g.Canon)
				}
				if withNull && rng.Intn(2) == 0 {
					parts = append(parts, "null")
				}
			}
			if withNull && len(parts) == 0 {
				parts = append(parts, "null")
			}
			sep := ","
			if rng.Intn(3) == 0 {
				sep = " ,\n  "
			}
			return "[" + strings.Join(parts, sep) + "]", canon
		}
		switch k := rng.Intn(23); {
		case k >= 20 && len(lastGens) > 0:
			// the previous valid array again with exactly one field of one rule changed
			d.Kind = "one-field-edit"
			j := rng.Intn(len(lastGens))
			lastGens = append([]gen(nil), lastGens...)
			lastGens[j] = lastGens[j].Edit(rng)
			var parts []string
			for _, g := range lastGens {
				parts = append(parts, g.JSON)
				if g.Valid {
					want = append(want, g.Canon)
				}
			}
			d.Payload = "[" + strings.Join(parts, ",") + "]"
			lastValidPayload, lastValidCanon = d.Payload, want
		case k < 7 || k >= 20:
			d.Kind = "valid-array"
			d.Payload, want = mk(false)
			lastValidPayload, lastValidCanon = d.Payload, want
			lastGens = mkGens
		case k < 9:
			d.Kind = "array-with-null-elements"
			d.Payload, want = mk(true)
		case k < 11 && lastDecodable != "\x00none":
			d.Kind = "identical-redelivery"
			d.Payload = lastDecodable
			want = model
		case k < 13:
			d.Kind = "truncated-json"
			p, _ := mk(false)
			if len(p) <= 2 {
				p = `[{"resource":"x"}]`
			}
			d.Payload = p[:1+rng.Intn(len(p)-1)]
			decodable = false
		case k < 15:
			d.Kind = "wrongly-typed-element"
			g := m.genRule(rng, nid())
			d.Payload = vk.PickS(rng, `[1,2]`, `["a"]`, `{"resource":"x"}`, `[[]]`, `[true]`, "["+strings.Replace(g.JSON, `"id":`, `"id":[1],"x":`, 1)+"]", `"str"`, `12`)
			decodable = false
		case k < 16:
			d.Kind = "garbage"
			d.Payload = vk.PickS(rng, "\x00\x01\x02", "not json", "[", "]", "{", "nul", "[}")
			decodable = false
		case k < 18:
			d.Kind = "empty"
			d.Payload = ""
			want = nil
		case k < 19:
			d.Kind = "json-null"
			d.Payload = "null"
			want = nil
		default:
			d.Kind = "bad-then-good"
			if lastValidPayload == "" {
				lastValidPayload, lastValidCanon = mk(false)
			}
			d.Payload = lastValidPayload
			want = lastValidCanon
		}
		c.Steps = append(c.Steps, d)
		var err error
		if run.Guard("C18/"+m.name+"/panic-escaped-Handle:"+d.Kind, c, func() { err = h.Handle([]byte(d.Payload)) }) {
			c.FailAt = i
			return c
		}
		run.Count("deliveries."+d.Kind, 1)
		if decodable {
			if err != nil {
				fail(i, "decodable-payload-returned-error:"+d.Kind, fmt.Sprintf("Handle returned %v for a payload that decodes to a rule list", err))
				return c
			}
			model = want
			lastDecodable = d.Payload
		} else if err == nil {
			fail(i, "undecodable-payload-returned-nil:"+d.Kind, fmt.Sprintf("Handle returned nil for the undecodable payload %q", d.Payload))
			return c
		}
		got := m.state()
		if !eqSets(got, model) {
			cl := "state-mismatch:" + d.Kind
			fail(i, cl, fmt.Sprintf("rules in force %v, expected %v", got, model))
			return c
		}
	}
	m.clear()
	key := m.name
	for _, s := range c.Steps {
		key += "," + s.Kind
	}
	run.Distinct(vk.Hash(key, len(model), idx))
	return c
}

// ------------------------------------------------------------------ file datasource

// waitFor polls for up to 30 s (convergence normally takes milliseconds; the bound only matters when it never comes,
// and a loaded machine must not turn slowness into a verdict)
func waitFor(cond func() bool) bool {
	for i := 0; i < 1200; i++ {
		if cond() {
			return true
		}
		time.Sleep(25 * time.Millisecond)
	}
	return cond()
}

func fileScenario(idx int, rng *rand.Rand, dir string) {
	m := isolationMod()
	m.clear()
	path := filepath.Join(dir, fmt.Sprintf("rules-%d.json", idx))
	mkPayload := func() (string, []string) {
		var parts, canon []string
		for j, k := 0, 1+rng.Intn(3); j < k; j++ {
			g := m.genRule(rng, nid())
			parts = append(parts, g.JSON)
			if g.Valid {
				canon = append(canon, g.Canon)
			}
		}
		return "[" + strings.Join(parts, ",") + "]", canon
	}
	p0, want := mkPayload()
	if err := os.WriteFile(path, []byte(p0), 0o644); err != nil {
		run.Inconclusive("cannot write scratch file: " + err.Error())
		return
	}
	// control watcher owned by the monitor: the verdict only counts when it saw the event too
	ctl, err := fsnotify.NewWatcher()
	if err != nil {
		run.Inconclusive("no fsnotify in this sandbox: " + err.Error())
		return
	}
	defer ctl.Close()
	ctl.Add(path)
	seen := make(chan fsnotify.Event, 256)
	go func() {
		for ev := range ctl.Events {
			select {
			case seen <- ev:
			default:
			}
		}
	}()
	drain := func() int {
		n := 0
		for {
			select {
			case <-seen:
				n++
			default:
				return n
			}
		}
	}
	ds := fileds.NewFileDataSource(path, m.handler())
	if err := ds.Initialize(); err != nil {
		if strings.Contains(err.Error(), "too many open files") || strings.Contains(err.Error(), "no space left") {
			// the host's inotify instance / watch limits, not the library
			run.Inconclusive("file scenario: the host refused another inotify instance: " + err.Error())
			return
		}
		run.Violation("C18/file/initialize-error", err.Error(), nil)
		return
	}
	// Close() may block forever when it races with the datasource closing itself after a
	// remove / rename event (unbuffered self-send in the library): never wait for it.
	defer func() { go ds.Close() }()
	desc := []string{"initial:" + p0}
	check := func(step string, want []string) bool {
		ok := waitFor(func() bool { return eqSets(m.state(), want) })
		evs := drain()
		if ok {
			run.Count("file_steps_converged", 1)
			return true
		}
		if evs == 0 && step != "initial" {
			run.Inconclusive("file scenario: control watcher saw no event for step " + step)
			return false
		}
		run.Violation("C18/file/not-converged:"+strings.SplitN(step, ":", 2)[0], fmt.Sprintf("after %s the rules in force are %v, the file's current content describes %v (control watcher saw %d events)", step, m.state(), want, evs), desc)
		return false
	}
	if !check("initial", want) {
		return
	}
	nsteps := 2 + rng.Intn(4)
	for s := 0; s < nsteps; s++ {
		drain()
		switch k := rng.Intn(11); {
		case k == 10:
			// log-rotation style replacement: the watched file is renamed away and a completely written new file is
			// moved into place (no later write to it); the datasource must end up with the new file's rules
			p, w := mkPayload()
			desc = append(desc, "rotate:"+p)
			os.Rename(path, path+".old")
			time.Sleep(time.Duration(rng.Intn(300)) * time.Millisecond)
			os.WriteFile(path+".new", []byte(p), 0o644)
			os.Rename(path+".new", path)
			want = w
			ok := waitFor(func() bool { return eqSets(m.state(), want) }) || waitFor(func() bool { return eqSets(m.state(), want) })
			evs := drain()
			ctl.Add(path)
			if !ok {
				if evs == 0 {
					run.Inconclusive("file scenario: control watcher saw no event for step rotate")
				} else {
					run.Violation("C18/file/not-converged:rotate", fmt.Sprintf("the watched file was renamed away and a new file moved into place: after 60 s the rules in force are %v, the new file describes %v (control watcher saw %d events)", m.state(), want, evs), desc)
				}
				return
			}
			run.Count("file_steps_converged", 1)
			run.Count("file_rotations", 1)
		case k < 5:
			p, w := mkPayload()
			desc = append(desc, "write:"+p)
			os.WriteFile(path, []byte(p), 0o644)
			want = w
			if !check("write:"+p, want) {
				return
			}
		case k < 7:
			p, w := mkPayload()
			desc = append(desc, "truncate-then-write:"+p)
			os.Truncate(path, 0)
			time.Sleep(30 * time.Millisecond)
			fh, _ := os.OpenFile(path, os.O_WRONLY, 0o644)
			fh.WriteString(p)
			fh.Close()
			want = w
			if !check("truncate-then-write:"+p, want) {
				return
			}
		case k < 8:
			desc = append(desc, "write-undecodable")
			// corrupt the content in place (one write event, no intermediate truncation that the
			// datasource would legitimately see as an empty payload)
			if fh, err := os.OpenFile(path, os.O_WRONLY, 0o644); err == nil {
				fh.WriteAt([]byte("{"), 0)
				fh.Close()
			}
			// previous rules stay in force
			time.Sleep(150 * time.Millisecond)
			if !check("write-undecodable", want) {
				return
			}
		case k < 9:
			desc = append(desc, "rename-away")
			os.Rename(path, path+".moved")
			check("rename-away", nil)
			return
		default:
			desc = append(desc, "remove")
			os.Remove(path)
			check("remove", nil)
			return
		}
	}
	desc = append(desc, "remove")
	drain()
	os.Remove(path)
	check("remove", nil)
	run.Distinct(vk.Hash(desc))
}

func main() {
	sx.Quiet()
	if os.Getenv("VERIF_MODE") != "file" {
		vclock.New(1900000000000) // (the file engine runs on real time: the datasource's retry loop really sleeps)
	}
	if os.Getenv("VERIF_MODE") == "file" {
		run = vk.Start("C18", "file")
		defer run.Finish()
		run.Rule("scenario = a refreshable file datasource (isolation parser) on a scratch file: initial content, then 2-5 of write / truncate-then-write / write-undecodable / rotate (renamed away, a complete new file moved into place), ended by rename-away or remove; after each event the module state must converge (polled up to 30 s) to the valid rules of the file's current content, or be empty once the file is gone; a control fsnotify watcher owned by the monitor must have seen the event, else the step is inconclusive. distinct = distinct scenarios.")
		run.Assume("inotify works in the sandbox (control watcher)", "wall-clock polling bound 30 s per step, only counted when the control watcher saw the event")
		dir := os.Getenv("VERIF_SCRATCH_DIR")
		if dir == "" {
			dir = os.TempDir()
		}
		dir = filepath.Join(dir, "c18-files")
		os.MkdirAll(dir, 0o755)
		n := run.N(12, 40) // (a datasource that closed itself after a remove / rename keeps its inotify instance for the life of the process: the thorough tier repeats the engine in fresh processes instead of running more scenarios in one)
		for i := 0; i < n; i++ {
			if run.Skip(i) {
				continue
			}
			run.Begin(i, map[string]int{"scenario": i})
			fileScenario(i, run.Rand(i), dir)
		}
		return
	}
	run = vk.Start("C18", "seq")
	defer run.Finish()
	run.Rule("case = one of the five JSON property handlers x 4-13 deliveries: valid arrays of 0-4 generated rules (valid and field-wise invalid; hot-param specific items of all four kinds) written by a hand-written encoder of the wire format, arrays with null elements, identical redelivery, the previous array with exactly one scalar field of one rule changed, truncated JSON, wrongly typed elements, garbage, empty payload, JSON null, bad-then-good; Handle's return (nil iff decodable), no panic, and the module's rules in force (all fields, canonical form) vs. the valid rules the last decodable payload describes; distinct by (module, delivery kinds).")
	run.Assume("the wire field names are those documented today (hand-written encoder)", "float specific items carry at most 5 decimals", "flow MemoryAdaptive rules are not generated (validity depends on the host's memory size)")
	mods := []*parserMod{flowMod(), isolationMod(), systemMod(), cbMod(), hotspotMod()}
	n := run.N(300, 9000)
	for i := 0; i < n*len(mods); i++ {
		if run.Skip(i) {
			continue
		}
		m := mods[i%len(mods)]
		run.Begin(i, map[string]string{"module": m.name})
		var c *caseDesc
		run.Guard("C18/"+m.name+"/panic-in-case", nil, func() { c = runCase(i, m, run.Rand(i)) })
		if i < 5 && c != nil {
			cc := *c
			if len(cc.Steps) > 4 {
				cc.Steps = cc.Steps[:4]
			}
			run.Sample(cc)
		}
	}
}
