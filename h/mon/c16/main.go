// C16 monitor: slot-chain order, first-block-wins, statistic callbacks, fail-open,
// and immutability of returned block errors, on generated chains of recording slots.
package main

import (
	"errors"
	"fmt"
	"math/rand"
	"sort"

	sentinel "github.com/alibaba/sentinel-golang/api"
	"github.com/alibaba/sentinel-golang/core/base"

	"verif/sx"
	"verif/vclock"
	"verif/vk"
)

type slotDesc struct {
	Order uint32 `json:"order"`
	Beh   string `json:"beh"` // pass | nil | wait | block-fresh | block-mutate | panic ; stat: rec | panic-pass | panic-block | panic-done
}

type caseDesc struct {
	Pre     []slotDesc `json:"prepare"`
	Chk     []slotDesc `json:"check"`
	Stat    []slotDesc `json:"stat"`
	Entries int        `json:"entries"`
	// per entry: exit handler behaviour
	ExitH []string `json:"exit_handlers"` // none | err | panic
	Note  string   `json:"note,omitempty"`
}

type call struct {
	kind string // pre | chk | pass | blocked | done
	idx  int
	rid  int
	be   beSnap
}

type beSnap struct {
	T   base.BlockType
	Msg string
	R   base.SentinelRule
	V   interface{}
}

func snap(b *base.BlockError) beSnap {
	if b == nil {
		return beSnap{}
	}
	return beSnap{b.BlockType(), b.BlockMsg(), b.TriggeredRule(), b.TriggeredValue()}
}

type myRule struct{ name string }

func (r *myRule) String() string       { return r.name }
func (r *myRule) ResourceName() string { return "c16" }

var run *vk.Run
var log []call

func rid(ctx *base.EntryContext) int {
	if v, ok := ctx.Input.Attachments["rid"].(int); ok {
		return v
	}
	return -1
}

type preS struct {
	i int
	d slotDesc
}

func (s *preS) Order() uint32 { return s.d.Order }
func (s *preS) Prepare(ctx *base.EntryContext) {
	log = append(log, call{kind: "pre", idx: s.i, rid: rid(ctx)})
	if s.d.Beh == "panic" {
		panic("prepare slot panic")
	}
}

type chkS struct {
	i    int
	d    slotDesc
	rule *myRule
}

func (s *chkS) Order() uint32 { return s.d.Order }
func (s *chkS) want(r int) beSnap {
	return beSnap{base.BlockType(100 + s.i), fmt.Sprintf("slot%d-req%d", s.i, r), s.rule, r*1000 + s.i}
}
func (s *chkS) Check(ctx *base.EntryContext) *base.TokenResult {
	r := rid(ctx)
	log = append(log, call{kind: "chk", idx: s.i, rid: r})
	w := s.want(r)
	switch s.d.Beh {
	case "nil":
		return nil
	case "wait":
		return base.NewTokenResultShouldWait(0)
	case "block-fresh":
		return base.NewTokenResultBlockedWithCause(w.T, w.Msg, w.R, w.V)
	case "block-mutate":
		res := ctx.RuleCheckResult
		if res == nil {
			return base.NewTokenResultBlockedWithCause(w.T, w.Msg, w.R, w.V)
		}
		res.ResetToBlockedWithCause(w.T, w.Msg, w.R, w.V)
		return res
	case "panic":
		panic("rule check slot panic")
	}
	return ctx.RuleCheckResult
}

type statS struct {
	i int
	d slotDesc
}

func (s *statS) Order() uint32 { return s.d.Order }
func (s *statS) OnEntryPassed(ctx *base.EntryContext) {
	log = append(log, call{kind: "pass", idx: s.i, rid: rid(ctx)})
	if s.d.Beh == "panic-pass" {
		panic("stat slot panic (pass)")
	}
}
func (s *statS) OnEntryBlocked(ctx *base.EntryContext, be *base.BlockError) {
	log = append(log, call{kind: "blocked", idx: s.i, rid: rid(ctx), be: snap(be)})
	if s.d.Beh == "panic-block" {
		panic("stat slot panic (blocked)")
	}
}
func (s *statS) OnCompleted(ctx *base.EntryContext) {
	log = append(log, call{kind: "done", idx: s.i, rid: rid(ctx)})
	if s.d.Beh == "panic-done" {
		panic("stat slot panic (completed)")
	}
}

func genCase(rng *rand.Rand) *caseDesc {
	c := &caseDesc{}
	orders := []uint32{1, 5, 5, 9, 1000}
	np, nc, ns := rng.Intn(4), rng.Intn(7), rng.Intn(5)
	if rng.Intn(5) == 0 {
		// long chains with many ties: an unstable sort only shows beyond ~12 elements
		np, nc, ns = 13+rng.Intn(20), 13+rng.Intn(30), 13+rng.Intn(20)
	}
	panicky := rng.Intn(4) == 0
	for i := 0; i < np; i++ {
		b := "pass"
		if panicky && rng.Intn(6) == 0 {
			b = "panic"
		}
		c.Pre = append(c.Pre, slotDesc{orders[rng.Intn(len(orders))], b})
	}
	blocky := rng.Intn(3) != 0
	for i := 0; i < nc; i++ {
		b := vk.PickS(rng, "pass", "pass", "nil", "wait")
		if blocky && rng.Intn(3) == 0 {
			b = vk.PickS(rng, "block-fresh", "block-mutate")
		}
		if panicky && rng.Intn(6) == 0 {
			b = "panic"
		}
		c.Chk = append(c.Chk, slotDesc{orders[rng.Intn(len(orders))], b})
	}
	for i := 0; i < ns; i++ {
		b := "rec"
		if panicky && rng.Intn(8) == 0 {
			b = vk.PickS(rng, "panic-pass", "panic-block", "panic-done")
		}
		c.Stat = append(c.Stat, slotDesc{orders[rng.Intn(len(orders))], b})
	}
	c.Entries = 3 + rng.Intn(5)
	for i := 0; i < c.Entries; i++ {
		c.ExitH = append(c.ExitH, vk.PickS(rng, "none", "none", "none", "err", "panic"))
	}
	return c
}

func sortedIdx(ds []slotDesc) []int {
	idx := make([]int, len(ds))
	for i := range idx {
		idx[i] = i
	}
	sort.SliceStable(idx, func(a, b int) bool { return ds[idx[a]].Order < ds[idx[b]].Order })
	return idx
}

type held struct {
	be   *base.BlockError
	want beSnap
	age  int
	rid  int
}

var ridCtr int
var helds []held

func checkHelds(c *caseDesc) bool {
	for i := range helds {
		h := &helds[i]
		h.age++
		if h.age == 1 || h.age == 10 || h.age == 100 || h.age == 1000 {
			if got := snap(h.be); got != h.want {
				run.Violation("C16/block-error-mutated-after-return", fmt.Sprintf("block error of request %d changed after %d further entries: %+v, was %+v", h.rid, h.age, got, h.want), c)
				return false
			}
			run.Count("block_error_rechecks", 1)
		}
	}
	if len(helds) > 3000 {
		helds = helds[len(helds)-1500:]
	}
	return true
}

func runCase(idx int, c *caseDesc) {
	sc := base.NewSlotChain()
	var chks []*chkS
	// insertion in generated order; the chain must sort stably by order value
	for i, d := range c.Pre {
		sc.AddStatPrepareSlot(&preS{i, d})
	}
	for i, d := range c.Chk {
		s := &chkS{i, d, &myRule{fmt.Sprintf("rule-of-slot-%d", i)}}
		chks = append(chks, s)
		sc.AddRuleCheckSlot(s)
	}
	for i, d := range c.Stat {
		sc.AddStatSlot(&statS{i, d})
	}
	pOrd, cOrd, sOrd := sortedIdx(c.Pre), sortedIdx(c.Chk), sortedIdx(c.Stat)
	sig := func(clause string) string { return "C16/" + clause }
	for n := 0; n < c.Entries; n++ {
		ridCtr++
		r := ridCtr
		log = log[:0]
		// expected call sequence of Entry
		var exp []call
		panicked := false
		blocker := -1
		for _, i := range pOrd {
			exp = append(exp, call{kind: "pre", idx: i, rid: r})
			if c.Pre[i].Beh == "panic" {
				panicked = true
				break
			}
		}
		if !panicked {
			for _, i := range cOrd {
				exp = append(exp, call{kind: "chk", idx: i, rid: r})
				b := c.Chk[i].Beh
				if b == "panic" {
					panicked = true
					break
				}
				if b == "block-fresh" || b == "block-mutate" {
					blocker = i
					break
				}
			}
		}
		statPanic := false
		if !panicked {
			for _, i := range sOrd {
				if blocker >= 0 {
					exp = append(exp, call{kind: "blocked", idx: i, rid: r, be: chks[blocker].want(r)})
					if c.Stat[i].Beh == "panic-block" {
						statPanic = true
						break
					}
				} else {
					exp = append(exp, call{kind: "pass", idx: i, rid: r})
					if c.Stat[i].Beh == "panic-pass" {
						statPanic = true
						break
					}
				}
			}
		}
		var en *base.SentinelEntry
		var be *base.BlockError
		esc := run.Guard(sig("panic-escaped-Entry"), c, func() {
			en, be = sentinel.Entry("c16", sentinel.WithSlotChain(sc), sentinel.WithAttachment("rid", r), sentinel.WithBatchCount(uint32(1+r%3)))
		})
		if esc {
			return
		}
		if (en == nil) == (be == nil) {
			run.Violation(sig("outcome-both-or-neither"), "Entry returned both or neither of (entry, block error)", c)
			return
		}
		// (what runs after a slot has panicked is left open by the property: only the calls up to and including the
		// panicking one are compared then)
		if (panicked || statPanic) && len(log) >= len(exp) && eqCalls(log[:len(exp)], exp) {
			run.Count("calls_after_a_panicking_slot_not_compared", int64(len(log)-len(exp)))
		} else if !eqCalls(log, exp) {
			c.Note = fmt.Sprintf("request %d: calls %s, expected %s", r, fmtCalls(log), fmtCalls(exp))
			cl := "call-order"
			if len(log) > len(exp) && blocker >= 0 {
				cl = "slot-ran-after-block"
			}
			if panicked || statPanic {
				cl += ":with-panicking-slot"
			}
			run.Violation(sig(cl), c.Note, c)
			return
		}
		switch {
		case panicked || (statPanic && blocker < 0):
			if be != nil {
				run.Violation(sig("fail-open:panicking-chain-did-not-admit"), fmt.Sprintf("request %d: a slot panicked but the request was rejected with %v", r, be), c)
				return
			}
			run.Count("entries_with_panicking_slot", 1)
		case statPanic && blocker >= 0:
			// a panicking statistic slot while reporting a block: the statement demands the
			// request be admitted ("a panic raised by any slot ... the request is admitted")
			if be != nil {
				run.Violation(sig("fail-open:panic-in-stat-slot-on-blocked-entry"), fmt.Sprintf("request %d: statistic slot panicked in OnEntryBlocked and the request was still rejected", r), c)
				return
			}
		case blocker >= 0:
			if be == nil {
				run.Violation(sig("first-block-wins:blocked-request-admitted"), fmt.Sprintf("request %d: slot %d blocked but an entry was returned", r, blocker), c)
				return
			}
			w := chks[blocker].want(r)
			if got := snap(be); got != w {
				run.Violation(sig("first-block-wins:wrong-block-error"), fmt.Sprintf("request %d: returned %+v, first blocker produced %+v", r, got, w), c)
				return
			}
			helds = append(helds, held{be: be, want: w, rid: r})
			run.Count("blocked", 1)
		default:
			if be != nil {
				run.Violation(sig("spurious-block"), fmt.Sprintf("request %d: no slot blocked but got %v", r, be), c)
				return
			}
			run.Count("passed", 1)
		}
		if !checkHelds(c) {
			return
		}
		if en != nil {
			switch c.ExitH[n] {
			case "err":
				en.WhenExit(func(*base.SentinelEntry, *base.EntryContext) error { return errors.New("exit handler error") })
			case "panic":
				en.WhenExit(func(*base.SentinelEntry, *base.EntryContext) error { panic("exit handler panic") })
			}
			log = log[:0]
			if run.Guard(sig("panic-escaped-Exit"), c, func() { en.Exit() }) {
				return
			}
			clean := !panicked && !statPanic && c.ExitH[n] != "panic"
			if clean {
				var expd []call
				donePanic := false
				for _, i := range sOrd {
					expd = append(expd, call{kind: "done", idx: i, rid: r})
					if c.Stat[i].Beh == "panic-done" {
						donePanic = true
						break
					}
				}
				if donePanic && len(log) >= len(expd) && eqCalls(log[:len(expd)], expd) {
					run.Count("calls_after_a_panicking_slot_not_compared", int64(len(log)-len(expd)))
				} else if !eqCalls(log, expd) {
					cl := "completion-callbacks"
					if donePanic {
						cl += ":with-panicking-slot"
					}
					c.Note = fmt.Sprintf("request %d exit: calls %s, expected %s", r, fmtCalls(log), fmtCalls(expd))
					run.Violation(sig(cl), c.Note, c)
					return
				}
			}
			log = log[:0]
			if run.Guard(sig("panic-escaped-Exit"), c, func() { en.Exit(); en.Exit(base.WithError(errors.New("late"))) }) {
				return
			}
			if len(log) != 0 {
				run.Violation(sig("exit-not-idempotent"), fmt.Sprintf("request %d: repeated Exit called slots again: %s", r, fmtCalls(log)), c)
				return
			}
		}
	}
	run.Distinct(vk.Hash(c.Pre, c.Chk, c.Stat))
}

func eqCalls(a, b []call) bool {
	if len(a) != len(b) {
		return false
	}
	for i := range a {
		if a[i] != b[i] {
			return false
		}
	}
	return true
}

func fmtCalls(cs []call) string {
	s := "["
	for _, c := range cs {
		s += fmt.Sprintf("%s%d ", c.kind, c.idx)
		if c.kind == "blocked" {
			s += fmt.Sprintf("(%d,%s) ", c.be.T, c.be.Msg)
		}
	}
	return s + "]"
}

func main() {
	sx.Quiet()
	run = vk.Start("C16", "seq")
	defer run.Finish()
	run.Rule("case = chain of 0-3 prepare, 0-6 rule-check, 0-4 statistic recording slots (one case in five: 13-42 slots per kind) with order values from {1,5,5,9,1000} (forced ties), behaviours pass/nil/wait/block-fresh/block-by-mutating-ctx-result/panic, exit handlers none/error/panic, 3-7 entries each exited (and re-exited); the full call log of every Entry/Exit is compared with the sequence implied by the chain description; every returned block error is re-compared after 1, 10, 100, 1000 further entries; distinct by chain description.")
	run.Assume("sequential callers, GOMAXPROCS=1 (sync.Pool behaves as a LIFO: maximal reuse of pooled contexts)")
	vclock.New(1700000000000)
	n := run.N(2000, 200000)
	for i := 0; i < n; i++ {
		if run.Skip(i) {
			continue
		}
		c := genCase(run.Rand(i))
		run.Begin(i, c)
		if i < 3 {
			run.Sample(c)
		}
		run.Guard("C16/panic-in-monitor-or-escaped", c, func() { runCase(i, c) })
	}
}
