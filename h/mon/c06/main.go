// C06 monitor: hot-parameter concurrency rules vs. a per-(rule,value) semaphore
// model. Sequential lock-step engine (default) and a multi-goroutine engine with
// barrier capacity probes (VERIF_MODE=par, built with -race).
package main

import (
	"fmt"
	"math/rand"
	"os"
	"reflect"
	"sync"
	"sync/atomic"

	sentinel "github.com/alibaba/sentinel-golang/api"
	"github.com/alibaba/sentinel-golang/core/base"
	"github.com/alibaba/sentinel-golang/core/hotspot"

	"verif/coop"
	"verif/sx"
	"verif/vatomic"
	"verif/vclock"
	"verif/vk"
)

type pt struct {
	A int
	B string
}

// value universe (comparable, several Go types)
var universe = []interface{}{1, 2, "a", "b", true, 2.5, pt{1, "x"}, pt{2, "y"}, int64(1)}

type ruleDesc struct {
	Idx      int           `json:"idx"`
	Key      string        `json:"key,omitempty"`
	Thr      int64         `json:"thr"`
	Specific map[int]int64 `json:"specific,omitempty"` // universe index -> threshold
	Cap      int64         `json:"cap,omitempty"`
}

type op struct {
	K    string `json:"k"` // enter | exit
	Res  int    `json:"res"`
	Args []int  `json:"args,omitempty"` // universe indexes
	Att  int    `json:"att,omitempty"`  // universe index+1 stored under attachment "k" (0 = none)
	Pick int    `json:"pick,omitempty"`
}

type caseDesc struct {
	Rules  [][]ruleDesc `json:"rules"` // per resource
	Ops    []op         `json:"ops"`
	FailAt int          `json:"fail_at,omitempty"`
}

var run *vk.Run
var caseNo int

func genCase(rng *rand.Rand) *caseDesc {
	c := &caseDesc{}
	nres := 1 + rng.Intn(2)
	for r := 0; r < nres; r++ {
		var rs []ruleDesc
		for i, n := 0, 1+rng.Intn(2); i < n; i++ {
			d := ruleDesc{Idx: vk.PickI(rng, 0, 0, 0, 1, -1, -2, 2), Thr: int64(vk.PickI(rng, 0, 1, 1, 2, 2, 3, 4))}
			if rng.Intn(4) == 0 && d.Idx <= 0 {
				d.Key = "k"
			}
			if rng.Intn(2) == 0 {
				d.Specific = map[int]int64{}
				for j, m := 0, 1+rng.Intn(3); j < m; j++ {
					d.Specific[rng.Intn(len(universe))] = int64(rng.Intn(4))
				}
			}
			if rng.Intn(4) == 0 {
				d.Cap = int64(len(universe) + 1 + rng.Intn(5))
			}
			rs = append(rs, d)
		}
		c.Rules = append(c.Rules, rs)
	}
	live := 0
	for i, n := 0, 30+rng.Intn(90); i < n; i++ {
		o := op{Res: rng.Intn(nres)}
		if live < 12 && rng.Intn(5) < 3 || live == 0 {
			o.K = "enter"
			switch rng.Intn(6) {
			case 0: // no args
			case 1:
				o.Args = []int{rng.Intn(len(universe))}
			default:
				// few values, to make collisions likely
				for j, m := 0, 1+rng.Intn(3); j < m; j++ {
					o.Args = append(o.Args, rng.Intn(4))
				}
			}
			if rng.Intn(5) == 0 {
				o.Att = 1 + rng.Intn(4)
			}
			live++ // upper bound
		} else {
			o.K = "exit"
			o.Pick = rng.Intn(1 << 20)
			live--
		}
		c.Ops = append(c.Ops, o)
	}
	return c
}

type modelRule struct {
	d    ruleDesc
	id   string
	live map[interface{}]int64
}

func (m *modelRule) extract(args []interface{}, att map[interface{}]interface{}) interface{} {
	if m.d.Key != "" {
		if v, ok := att[m.d.Key]; ok && v != nil {
			return v
		}
	}
	i := m.d.Idx
	if i < 0 {
		i = len(args) + i
	}
	if i < 0 || i >= len(args) {
		return nil
	}
	return args[i]
}

func (m *modelRule) thr(v interface{}) int64 {
	for ui, t := range m.d.Specific {
		if universe[ui] == v {
			return t
		}
	}
	return m.d.Thr
}

type liveE struct {
	e    *base.SentinelEntry
	res  int
	args []interface{}
	att  map[interface{}]interface{}
}

func build(c *caseDesc) ([]string, [][]*modelRule, []*hotspot.Rule) {
	caseNo++
	names := make([]string, len(c.Rules))
	models := make([][]*modelRule, len(c.Rules))
	var rules []*hotspot.Rule
	for r, rs := range c.Rules {
		names[r] = fmt.Sprintf("c06-%d-%d", caseNo, r)
		for i, d := range rs {
			hr := &hotspot.Rule{ID: fmt.Sprintf("r%d.%d", r, i), Resource: names[r], MetricType: hotspot.Concurrency, ParamIndex: d.Idx, ParamKey: d.Key,
				Threshold: d.Thr, ParamsMaxCapacity: d.Cap}
			if d.Specific != nil {
				hr.SpecificItems = map[interface{}]int64{}
				for ui, t := range d.Specific {
					hr.SpecificItems[universe[ui]] = t
				}
			}
			rules = append(rules, hr)
			models[r] = append(models[r], &modelRule{d: d, id: hr.ID, live: map[interface{}]int64{}})
		}
	}
	return names, models, rules
}

func mkInput(o op) ([]interface{}, map[interface{}]interface{}, []sentinel.EntryOption) {
	var args []interface{}
	for _, ui := range o.Args {
		args = append(args, universe[ui])
	}
	var att map[interface{}]interface{}
	var opts []sentinel.EntryOption
	if len(args) > 0 {
		opts = append(opts, sentinel.WithArgs(args...))
	}
	if o.Att > 0 {
		att = map[interface{}]interface{}{"k": universe[o.Att-1]}
		opts = append(opts, sentinel.WithAttachments(att))
	}
	return args, att, opts
}

func runCase(idx int, c *caseDesc) {
	names, models, rules := build(c)
	if _, err := hotspot.LoadRules(rules); err != nil {
		run.Violation("C06/load-error", err.Error(), c)
		return
	}
	defer hotspot.ClearRules()
	var lives []liveE
	defer func() {
		for _, l := range lives {
			l.e.Exit()
		}
	}()
	sawP, sawB := false, false
	trace := []byte{}
	fail := func(i int, clause, msg string) {
		c.FailAt = i
		run.Violation("C06/"+clause, fmt.Sprintf("op %d: %s", i, msg), c)
	}
	for i, o := range c.Ops {
		switch o.K {
		case "enter":
			args, att, opts := mkInput(o)
			var blocker *modelRule
			var bv interface{}
			for _, m := range models[o.Res] {
				v := m.extract(args, att)
				if v == nil {
					continue
				}
				if m.live[v]+1 > m.thr(v) {
					blocker, bv = m, v
					break
				}
			}
			en, be := sentinel.Entry(names[o.Res], opts...)
			if (en == nil) == (be == nil) {
				fail(i, "outcome:both-or-neither", "Entry returned both or neither")
				return
			}
			if be != nil {
				sawB = true
				trace = append(trace, 'b')
				if blocker == nil {
					fail(i, "admit-iff:spurious-rejection", fmt.Sprintf("rejected (%v) with args %v although every value has room", be, args))
					return
				}
				if be.BlockType() != base.BlockTypeHotSpotParamFlow {
					fail(i, "block-type", fmt.Sprintf("blocked with %s", be.BlockType()))
					return
				}
				// the rule blamed must be one whose value has no room (which of several such rules is reported is not
				// part of the property)
				blamedOK := false
				if r, ok := be.TriggeredRule().(*hotspot.Rule); ok && r != nil {
					for _, m := range models[o.Res] {
						if v := m.extract(args, att); v != nil && m.id == r.ID && m.live[v]+1 > m.thr(v) {
							blamedOK = true
						}
					}
				}
				if !blamedOK {
					fail(i, "triggered-rule", fmt.Sprintf("rejected in the name of rule %v, whose value has room (first rule without room: %s)", be.TriggeredRule(), blocker.id))
					return
				}
			} else {
				sawP = true
				trace = append(trace, 'p')
				if blocker != nil {
					fail(i, "admit-iff:over-admission", fmt.Sprintf("admitted args %v att %v although value %v of rule %s has %d live entries, threshold %d", args, att, bv, blocker.id, blocker.live[bv], blocker.thr(bv)))
					en.Exit()
					return
				}
				for _, m := range models[o.Res] {
					if v := m.extract(args, att); v != nil {
						m.live[v]++
					}
				}
				lives = append(lives, liveE{en, o.Res, args, att})
			}
		case "exit":
			if len(lives) == 0 {
				continue
			}
			k := o.Pick % len(lives)
			l := lives[k]
			lives = append(lives[:k], lives[k+1:]...)
			l.e.Exit()
			for _, m := range models[l.res] {
				if v := m.extract(l.args, l.att); v != nil {
					m.live[v]--
				}
			}
		}
		for _, l := range lives {
			got := l.e.Context().Input.Args
			if !(len(got) == 0 && len(l.args) == 0) && !reflect.DeepEqual(got, l.args) {
				fail(i, "live-entry-args-changed", fmt.Sprintf("live entry Input.Args=%v, caller passed %v", got, l.args))
				return
			}
		}
	}
	// quiescent capacity probe: exit everything, then every value must admit exactly T_v entries
	for _, l := range lives {
		l.e.Exit()
	}
	lives = nil
	for r, ms := range models {
		if len(ms) != 1 {
			continue // the probe is only unambiguous with one rule on the resource
		}
		m := ms[0]
		for ui := 0; ui < 4; ui++ {
			v := universe[ui]
			want := m.thr(v)
			var held []*base.SentinelEntry
			n := int64(0)
			for ; n < want+2; n++ {
				args := []interface{}{v, v, v}
				if m.d.Key != "" || m.extract(args, nil) == nil {
					break
				}
				e, b := sentinel.Entry(names[r], sentinel.WithArgs(args...))
				if b != nil {
					break
				}
				held = append(held, e)
			}
			for _, e := range held {
				e.Exit()
			}
			if m.d.Key == "" && m.extract([]interface{}{v, v, v}, nil) != nil && n != want {
				c.FailAt = len(c.Ops)
				run.Violation("C06/conservation:capacity-after-quiescence", fmt.Sprintf("after all entries exited, value %v of rule %s admitted %d entries, threshold %d", v, m.id, n, want), c)
				return
			}
			run.Count("capacity_probes", 1)
		}
	}
	if sawP && sawB {
		run.Distinct(vk.Hash(string(trace), c.Rules))
	}
	run.Count("ops", int64(len(c.Ops)))
}

// ---------------------------------------------------------------- parallel engine

func parRound(r int, rng *rand.Rand) {
	caseNo++
	res := fmt.Sprintf("c06par-%d", caseNo)
	thr := int64(1 + rng.Intn(3))
	spec := map[interface{}]int64{"a": int64(rng.Intn(3))}
	hotspot.LoadRules([]*hotspot.Rule{{ID: "p", Resource: res, MetricType: hotspot.Concurrency, ParamIndex: 0, Threshold: thr, SpecificItems: spec}})
	defer hotspot.ClearRules()
	vals := []interface{}{1, 2, "a", "b"}
	var wg sync.WaitGroup
	var mu sync.Mutex
	argsBad := ""
	for g := 0; g < 16; g++ {
		wg.Add(1)
		grng := rand.New(rand.NewSource(rng.Int63()))
		go func() {
			defer wg.Done()
			var held []liveE
			for k := 0; k < 200; k++ {
				if len(held) > 0 && grng.Intn(2) == 0 {
					j := grng.Intn(len(held))
					l := held[j]
					held = append(held[:j], held[j+1:]...)
					if got := l.e.Context().Input.Args; !(len(got) == 0 && len(l.args) == 0) && !reflect.DeepEqual(got, l.args) {
						mu.Lock()
						argsBad = fmt.Sprintf("live entry Input.Args=%v, caller passed %v", got, l.args)
						mu.Unlock()
					}
					l.e.Exit()
					continue
				}
				var args []interface{}
				switch grng.Intn(4) {
				case 0:
				default:
					args = []interface{}{vals[grng.Intn(len(vals))], grng.Intn(100)}
				}
				var e *base.SentinelEntry
				if args == nil {
					e, _ = sentinel.Entry(res)
				} else {
					e, _ = sentinel.Entry(res, sentinel.WithArgs(args...))
				}
				if e != nil {
					held = append(held, liveE{e: e, args: args})
				}
			}
			for _, l := range held {
				l.e.Exit()
			}
		}()
	}
	wg.Wait()
	if argsBad != "" {
		run.Violation("C06/par:live-entry-args-changed", argsBad, map[string]int{"round": r})
	}
	// barrier: nothing in flight => each value admits exactly its threshold
	for _, v := range vals {
		want := thr
		if t, ok := spec[v]; ok {
			want = t
		}
		var held []*base.SentinelEntry
		n := int64(0)
		for ; n < want+3; n++ {
			e, b := sentinel.Entry(res, sentinel.WithArgs(v))
			if b != nil {
				break
			}
			held = append(held, e)
		}
		for _, e := range held {
			e.Exit()
		}
		if n != want {
			run.Violation("C06/par:conservation:capacity-after-quiescence", fmt.Sprintf("round %d: after all goroutines exited their entries, value %v admitted %d entries, threshold %d", r, v, n, want), map[string]interface{}{"round": r, "thr": thr, "value": fmt.Sprint(v)})
		}
		run.Count("capacity_probes", 1)
	}
	run.Distinct(vk.Hash(r, thr, spec["a"]))
	if r < 2 {
		run.Sample(map[string]interface{}{"round": r, "threshold": thr, "specific_a": spec["a"], "goroutines": 16, "steps_each": 200})
	}
}

// ---- conservation under full interleaving: the hot-parameter code against shimmed atomics AND shimmed cache locks.
// No decision oracle here (the check/increment window makes single decisions schedule-dependent): only what every
// schedule must satisfy - callers terminate, and when everything has been exited every value admits exactly its
// threshold again (no unit lost, none released twice, no counter object replaced under a live entry).
type consCase struct {
	Thr     int64      `json:"threshold"`
	Workers [][]string `json:"workers"` // per worker: the values it enters (and exits, after a yield) in turn
	Strat   string     `json:"strategy"`
	Choices []byte     `json:"choices,omitempty"`
}

func consEngine() {
	run = vk.Start("C06", "cons")
	defer run.Finish()
	run.Rule("schedule = (concurrency rule threshold 1-3 on never-seen values x / y, 2-3 callers x 1-2 Entry(value) ... Exit, choice sequence at every atomic access of the hot-parameter slots and every lock acquisition of the parameter caches) under random walk, PCT d<=3 and bounded DFS; afterwards each value admits exactly its threshold; callers terminate. distinct = distinct (case, interleaving).")
	run.Assume("Go atomics sequentially consistent; lock acquisitions are the only scheduling points inside the caches")
	{
		c0 := atomic.LoadUint64(&vatomic.Count)
		hotspot.LoadRulesOfResource("c06-calib", []*hotspot.Rule{{ID: "c", Resource: "c06-calib", MetricType: hotspot.Concurrency, ParamIndex: 0, Threshold: 1}})
		if e, b := sentinel.Entry("c06-calib", sentinel.WithArgs("x")); b == nil {
			e.Exit()
		}
		hotspot.ClearRulesOfResource("c06-calib")
		if atomic.LoadUint64(&vatomic.Count) == c0 {
			run.Inconclusive("observability: a request through a hot-parameter concurrency rule executed no shimmed access (was the code moved?) - no interleaving can be explored")
			return
		}
	}
	gen := func(rng *rand.Rand) *consCase {
		c := &consCase{Thr: int64(1 + rng.Intn(3))}
		for w, k := 0, 2+rng.Intn(2); w < k; w++ {
			var vs []string
			for i, n := 0, 1+rng.Intn(2); i < n; i++ {
				vs = append(vs, vk.PickS(rng, "x", "x", "x", "y"))
			}
			c.Workers = append(c.Workers, vs)
		}
		return c
	}
	do := func(c *consCase, ch coop.Chooser) {
		caseNo++
		res := fmt.Sprintf("c06cons-%d", caseNo)
		hotspot.LoadRulesOfResource(res, []*hotspot.Rule{{ID: res, Resource: res, MetricType: hotspot.Concurrency, ParamIndex: 0, Threshold: c.Thr}})
		defer hotspot.ClearRulesOfResource(res)
		fns := make([]func(), len(c.Workers))
		for w := range c.Workers {
			w := w
			fns[w] = func() {
				for _, v := range c.Workers[w] {
					e, b := sentinel.Entry(res, sentinel.WithArgs(v))
					if b == nil {
						coop.Yield("holding")
						e.Exit()
					}
				}
			}
		}
		r := coop.Run(ch, coop.Options{Adversarial: 1500, FairTail: 20000}, fns...)
		if r.Stuck {
			run.Abort("scheduler: a worker did not reach a yield point (wall-clock guard); the process is abandoned")
		}
		c.Choices = r.Choices
		if len(r.NonTerminated) > 0 {
			run.Violation("C06/cons:non-termination", fmt.Sprintf("callers %v did not return within 20000 fair steps", r.NonTerminated), c)
			return
		}
		for w, p := range r.Panics {
			run.Violation("C06/cons:panic", fmt.Sprintf("caller %d panicked: %s", w, p), c)
			return
		}
		for _, v := range []string{"x", "y"} {
			var held []*base.SentinelEntry
			n := int64(0)
			for ; n < c.Thr+3; n++ {
				e, b := sentinel.Entry(res, sentinel.WithArgs(v))
				if b != nil {
					break
				}
				held = append(held, e)
			}
			for _, e := range held {
				e.Exit()
			}
			if n != c.Thr {
				run.Violation("C06/cons:conservation:capacity-after-quiescence", fmt.Sprintf("after every entry was exited value %q admitted %d entries, threshold %d", v, n, c.Thr), c)
				return
			}
		}
		run.Distinct(vk.Hash(c.Thr, c.Workers, string(r.Choices)))
	}
	n := run.N(4000, 300000)
	for i := 0; i < n; i++ {
		if run.Skip(i) {
			continue
		}
		rng := run.Rand(i)
		c := gen(rng)
		var ch coop.Chooser
		if i%4 == 0 {
			c.Strat = "random"
			ch = &coop.Random{R: rng}
		} else {
			d := 1 + rng.Intn(3)
			c.Strat = fmt.Sprintf("pct-d%d", d)
			ch = coop.NewPCT(rng, len(c.Workers), d, 40)
		}
		run.Eval(i)
		if i < 2 {
			run.Sample(c)
		}
		do(c, ch)
	}
	if !run.Replaying() {
		for j, nd := 0, run.N(3, 40); j < nd; j++ {
			c := gen(run.Rand(8_000_000 + j))
			c.Workers = c.Workers[:2]
			c.Strat = "dfs-2-preemptions"
			d := &coop.DFS{MaxPreempt: 2}
			cnt := 0
			for d.Next() && cnt < 15000 {
				cnt++
				run.Eval(8_000_000 + j)
				cc := *c
				do(&cc, d)
			}
			run.Count("dfs_schedules", int64(cnt))
		}
	}
}

func main() {
	sx.Quiet()
	vclock.New(1900000000000)
	if os.Getenv("VERIF_MODE") == "cons" {
		consEngine()
		return
	}
	if os.Getenv("VERIF_MODE") == "par" {
		run = vk.Start("C06", "par")
		defer run.Finish()
		run.Rule("round = 16 goroutines x 200 steps opening (value of 4, or no args) and exiting entries on one resource with a concurrency rule (threshold 1-3, specific item for \"a\"); live entries' Input.Args checked before exit; at the barrier each value must admit exactly its threshold (counters returned to zero); race detector on. distinct = rounds.")
		n := run.N(15, 400)
		for i := 0; i < n; i++ {
			if run.Skip(i) {
				continue
			}
			run.Begin(i, map[string]int{"round": i})
			parRound(i, run.Rand(i))
		}
		return
	}
	run = vk.Start("C06", "seq")
	defer run.Finish()
	run.Rule("case = 1-2 resources x 1-2 concurrency rules (index 0/1/2/-1/-2 or attachment key, threshold 0-4, specific items over int/string/bool/float/struct/int64 values, optional capacity above the value count), 30-120 enter/exit ops with 0-3 args from a small universe, random exit order; every decision vs. the per-(rule,value) semaphore model (the rule blamed for a rejection must be one without room), Input.Args of all live entries after every op, capacity probe at quiescence; non-trivial = pass and block seen; distinct by (trace, rules).")
	run.Assume("distinct live values stay below the parameter capacity", "GOMAXPROCS=1 for the sequential engine")
	n := run.N(500, 20000)
	for i := 0; i < n; i++ {
		if run.Skip(i) {
			continue
		}
		c := genCase(run.Rand(i))
		run.Begin(i, c)
		if i < 2 {
			cc := *c
			if len(cc.Ops) > 12 {
				cc.Ops = cc.Ops[:12]
			}
			run.Sample(cc)
		}
		run.Guard("C06/panic", c, func() { runCase(i, c) })
	}
	// a long history under a large configured capacity: the in-flight unit of a value survives thousands of other values
	// as long as their number stays below the capacity the rule asks for
	for i := n; i < n+run.N(1, 8); i++ {
		if run.Skip(i) {
			continue
		}
		d := map[string]interface{}{"capacity": 5000, "other_values": 4200 + 50*(i-n)}
		run.Begin(i, d)
		run.Guard("C06/panic", d, func() { longHistory(i, 4200+50*(i-n)) })
	}
	for j := int64(1); j <= int64(run.N(3, 12)); j++ {
		i := n + 100 + int(j)
		if run.Skip(i) {
			continue
		}
		d := map[string]interface{}{"family": "reload-in-flight", "threshold": j}
		run.Begin(i, d)
		run.Guard("C06/panic", d, func() { reloadInFlight(i, j) })
	}
}

// reloadInFlight: the threshold of the rule is edited while entries are in flight: the in-flight figure of a value is
// the number of its live entries whatever rule objects came and went
func reloadInFlight(idx int, thr int64) {
	caseNo++
	res := fmt.Sprintf("c06-reload-%d", caseNo)
	d := map[string]interface{}{"case": idx, "threshold_before": thr, "threshold_after": thr + 1}
	mk := func(t int64) []*hotspot.Rule {
		return []*hotspot.Rule{{ID: "r", Resource: res, MetricType: hotspot.Concurrency, ParamIndex: 0, Threshold: t}}
	}
	hotspot.LoadRulesOfResource(res, mk(thr))
	defer hotspot.ClearRulesOfResource(res)
	var held []*base.SentinelEntry
	enter := func() bool {
		e, b := sentinel.Entry(res, sentinel.WithArgs("v"))
		if b == nil {
			held = append(held, e)
		}
		return b == nil
	}
	for k := int64(0); k < thr; k++ {
		enter()
	}
	hotspot.LoadRulesOfResource(res, mk(thr+1))
	a1, a2 := enter(), enter()
	if int64(len(held)) != thr+1 || !a1 || a2 {
		run.Violation("C06/admit-iff:reload-in-flight", fmt.Sprintf("threshold %d, %d entries for value \"v\" in flight, rule reloaded with threshold %d: the next two requests were admitted=%v,%v (expected true,false), %d entries live", thr, thr, thr+1, a1, a2, len(held)), d)
	}
	for _, e := range held {
		e.Exit()
	}
	if !enter() {
		run.Violation("C06/admit-iff:spurious-rejection:reload-in-flight", "all entries exited after a reload in mid-flight, the next request for the value was rejected", d)
	}
	for _, e := range held[len(held)-1:] {
		e.Exit()
	}
	run.Count("reloads_in_flight", 1)
	run.Distinct(vk.Hash("reload-in-flight", thr))
}

func longHistory(idx, others int) {
	caseNo++
	res := fmt.Sprintf("c06-long-%d", caseNo)
	hotspot.LoadRulesOfResource(res, []*hotspot.Rule{{ID: "cap", Resource: res, MetricType: hotspot.Concurrency, ParamIndex: 0, Threshold: 1, ParamsMaxCapacity: 5000}})
	defer hotspot.ClearRulesOfResource(res)
	held, b := sentinel.Entry(res, sentinel.WithArgs("kept"))
	if b != nil {
		run.Violation("C06/admit-iff:spurious-rejection", "long history: the first request of a value was rejected", map[string]interface{}{"case": idx})
		return
	}
	defer held.Exit()
	for k := 0; k < others; k++ {
		if e, b := sentinel.Entry(res, sentinel.WithArgs(fmt.Sprintf("v%d", k))); b == nil {
			e.Exit()
		}
	}
	if e, b := sentinel.Entry(res, sentinel.WithArgs("kept")); b == nil {
		e.Exit()
		run.Violation("C06/admit-iff:over-admission:long-history", fmt.Sprintf("threshold 1, configured parameter capacity 5000: value \"kept\" has one entry in flight; after %d other values (entered and exited) a second entry for it was admitted: its in-flight figure was forgotten below the configured capacity", others), map[string]interface{}{"case": idx, "other_values": others})
	}
	run.Count("long_histories", 1)
	run.Distinct(vk.Hash("long", others))
}
