// C05 monitor: hot-parameter QPS rules. Envelope monitors over the per-value
// admitted-token log (reject mode), spacing/queueing monitors over requested
// sleeps (throttling mode), metamorphic projection (one value's decisions must
// not depend on other values' traffic), and "no selected argument => never limited".
package main

import (
	"fmt"
	"math/big"
	"math/rand"
	"os"
	"sync"
	"sync/atomic"
	"time"

	sentinel "github.com/alibaba/sentinel-golang/api"
	"github.com/alibaba/sentinel-golang/core/base"
	"github.com/alibaba/sentinel-golang/core/hotspot"

	"verif/coop"
	"verif/sx"
	"verif/vatomic"
	"verif/vclock"
	"verif/vk"
)

type pt struct {
	A int
	B string
}

var universe = []interface{}{0, 1, 2, 3, "a", "b", true, false, 1.5, pt{1, "x"}, pt{2, "y"}, 7, 8, 9}

type arrival struct {
	Dt    uint64 `json:"dt"`
	Val   int    `json:"val"` // universe index, -1 = request without the selected argument
	Batch int64  `json:"batch"`
}

type caseDesc struct {
	Throttle bool          `json:"throttle"`
	Thr      int64         `json:"thr"`
	Burst    int64         `json:"burst"`
	Dur      int64         `json:"dur_s"`
	MaxQ     int64         `json:"maxq_ms"`
	Idx      int           `json:"idx"`
	Key      string        `json:"key,omitempty"`
	Specific map[int]int64 `json:"specific,omitempty"`
	Cap      int64         `json:"cap,omitempty"`
	NVals    int           `json:"nvals"`
	// PreLoad: the rule is installed by a reload: first a rule with another threshold and a parameter capacity of 2
	// is loaded (no traffic), then the real one - which must get caches of its own capacity
	PreLoad bool      `json:"installed_by_reload,omitempty"`
	Arr     []arrival `json:"arrivals"`
	FailAt  int       `json:"fail_at,omitempty"`
	Note    string    `json:"note,omitempty"`
}

var run *vk.Run
var clk *vclock.Clock
var caseNo int

func genCase(rng *rand.Rand) *caseDesc {
	c := &caseDesc{}
	c.Throttle = rng.Intn(3) == 0
	c.Thr = int64(vk.PickI(rng, 0, 1, 1, 2, 3, 5, 10, 50))
	c.Burst = int64(vk.PickI(rng, 0, 0, 1, 3, 10))
	c.Dur = int64(vk.PickI(rng, 1, 1, 2, 5))
	c.MaxQ = int64(vk.PickI(rng, 0, 1, 100, 500, 3000))
	if rng.Intn(8) == 0 {
		// large figures: the refill / pacing arithmetic must not overflow or truncate
		c.Thr = vk.PickI64(rng, 1000, 1000000, 3000000000)
		c.Burst = vk.PickI64(rng, 0, 5, 1000000)
		c.Dur = vk.PickI64(rng, 60, 3600, 100000)
		c.MaxQ = vk.PickI64(rng, 0, 60000, 10000000, 5000000000)
	}
	c.Idx = vk.PickI(rng, 0, 0, 0, 2, -1, -3)
	if rng.Intn(5) == 0 && c.Idx <= 0 {
		c.Key = "k"
	}
	c.NVals = 1 + rng.Intn(12)
	if rng.Intn(2) == 0 {
		c.Specific = map[int]int64{}
		for j, m := 0, 1+rng.Intn(3); j < m; j++ {
			c.Specific[rng.Intn(c.NVals)] = int64(vk.PickI(rng, 0, 1, 2, 4, 20))
		}
	}
	if rng.Intn(4) == 0 {
		c.Cap = int64(1 + rng.Intn(c.NVals+3)) // may be below the number of live values
	}
	c.PreLoad = rng.Intn(4) == 0 && c.Cap != 2
	n := 30 + rng.Intn(120)
	D := uint64(c.Dur) * 1000
	for i := 0; i < n; i++ {
		a := arrival{Val: rng.Intn(c.NVals), Batch: int64(vk.PickI(rng, 1, 1, 1, 1, 2, 3, 5))}
		if rng.Intn(10) == 0 {
			a.Val = -1
		}
		if rng.Intn(25) == 0 {
			a.Batch = c.Thr + c.Burst + int64(rng.Intn(2))
			if a.Batch <= 0 {
				a.Batch = 1
			}
		}
		switch rng.Intn(12) {
		case 0, 1, 2, 3:
			a.Dt = 0
		case 4:
			a.Dt = 1
		case 5:
			a.Dt = D
		case 6:
			a.Dt = D + 1
		case 7:
			a.Dt = D - 1
		case 8:
			a.Dt = 3*D + uint64(rng.Intn(100))
			if rng.Intn(6) == 0 {
				a.Dt += 1 << 32 // idle for 49.7 days and a bit
			}
		case 9:
			if c.Thr > 0 {
				a.Dt = D / uint64(c.Thr)
			}
		default:
			a.Dt = uint64(rng.Intn(int(D)/2 + 1))
		}
		c.Arr = append(c.Arr, a)
	}
	return c
}

func (c *caseDesc) thrOf(val int) int64 {
	if t, ok := c.Specific[val]; ok {
		return t
	}
	return c.Thr
}

// args builds the argument list so that the selected index holds the value (or is absent)
func (c *caseDesc) opts(val int, filler int) []sentinel.EntryOption {
	var opts []sentinel.EntryOption
	if c.Key != "" {
		if val >= 0 {
			opts = append(opts, sentinel.WithAttachments(map[interface{}]interface{}{"k": universe[val], "other": filler}))
			// positional args present too; the key has priority
			opts = append(opts, sentinel.WithArgs("pos0", "pos1", "pos2"))
		} else {
			// no key and no positional fallback for the selected index
			opts = append(opts, sentinel.WithAttachments(map[interface{}]interface{}{"other": filler}))
			if c.Idx == 0 {
				// index 0 with an empty argument list: absent
			} else {
				opts = append(opts, sentinel.WithArgs()) // negative index out of range on an empty list
			}
		}
		return opts
	}
	if val < 0 {
		// selected argument absent: list too short for the index
		switch c.Idx {
		case 0:
			// no args at all
		case 2:
			opts = append(opts, sentinel.WithArgs("f0", filler))
		case -1:
			// empty list
		case -3:
			opts = append(opts, sentinel.WithArgs("f0", filler))
		}
		return opts
	}
	v := universe[val]
	switch c.Idx {
	case 0:
		opts = append(opts, sentinel.WithArgs(v, filler))
	case 2:
		opts = append(opts, sentinel.WithArgs("f0", filler, v))
	case -1:
		opts = append(opts, sentinel.WithArgs(filler, "f1", v))
	case -3:
		opts = append(opts, sentinel.WithArgs(v, "f1", filler))
	}
	return opts
}

type decision struct {
	admitted bool
	sleep    time.Duration
	at       uint64
}

func (c *caseDesc) rule(res string) *hotspot.Rule {
	r := &hotspot.Rule{ID: res, Resource: res, MetricType: hotspot.QPS, ParamIndex: c.Idx, ParamKey: c.Key, Threshold: c.Thr,
		BurstCount: c.Burst, DurationInSec: c.Dur, MaxQueueingTimeMs: c.MaxQ, ParamsMaxCapacity: c.Cap}
	if c.Throttle {
		r.ControlBehavior = hotspot.Throttling
	}
	if c.Specific != nil {
		r.SpecificItems = map[interface{}]int64{}
		for ui, t := range c.Specific {
			r.SpecificItems[universe[ui]] = t
		}
	}
	return r
}

// play runs the arrivals selected by keep (nil = all) at their absolute instants on a fresh resource.
func play(c *caseDesc, t0 uint64, keep func(a arrival) bool, fail func(i int, clause, msg string)) ([]decision, bool) {
	caseNo++
	res := fmt.Sprintf("c05-%d", caseNo)
	if c.PreLoad {
		pre := c.rule(res)
		pre.Threshold += 5
		pre.ParamsMaxCapacity = 2
		if _, err := hotspot.LoadRulesOfResource(res, []*hotspot.Rule{pre}); err != nil {
			fail(0, "load-error", err.Error())
			return nil, false
		}
	}
	if _, err := hotspot.LoadRulesOfResource(res, []*hotspot.Rule{c.rule(res)}); err != nil {
		fail(0, "load-error", err.Error())
		return nil, false
	}
	defer hotspot.ClearRulesOfResource(res)
	out := make([]decision, len(c.Arr))
	t := t0
	for i, a := range c.Arr {
		t += a.Dt
		if keep != nil && !keep(a) {
			continue
		}
		clk.SetMs(t)
		clk.TakeSleeps()
		clk.ResetReads()
		var e *base.SentinelEntry
		var b *base.BlockError
		func() {
			defer func() {
				if r := recover(); r != nil {
					if _, ok := r.(vclock.LivelockError); ok {
						fail(i, "termination:livelock", fmt.Sprintf("arrival %d: more than 10^6 clock reads inside one Entry call", i))
					} else {
						fail(i, "panic-escaped-Entry", fmt.Sprintf("arrival %d: panic %v", i, r))
					}
					out = nil
				}
			}()
			e, b = sentinel.Entry(res, append(c.opts(a.Val, i), sentinel.WithBatchCount(uint32(a.Batch)))...)
		}()
		if out == nil {
			return nil, false
		}
		if clk.Reads() > clk.ReadLimit {
			// the read-limit panic was swallowed by the chain's own recover: the call did not terminate by itself
			fail(i, "termination:livelock", fmt.Sprintf("arrival %d: more than 10^6 clock reads inside one Entry call", i))
			return nil, false
		}
		var sl time.Duration
		for _, s := range clk.TakeSleeps() {
			sl += s
		}
		out[i] = decision{admitted: b == nil, sleep: sl, at: t}
		if b != nil && b.BlockType() != base.BlockTypeHotSpotParamFlow {
			fail(i, "block-type", fmt.Sprintf("arrival %d blocked with %s", i, b.BlockType()))
			return nil, false
		}
		if e != nil {
			e.Exit()
		}
	}
	return out, true
}

// ---- composition of two rules on one resource. Rule A selects argument 0, rule B argument 1; both values come from
// the same small universe. The list [A, B] is installed by a reload of [A-with-another-threshold] (so that the
// managers' statistic re-use paths run). Each rule must meter its own argument only: the decisions must equal
// (A alone on a fresh resource) AND (B alone on a fresh resource, fed with the requests A admitted).
type compReq struct {
	Dt uint64 `json:"dt"`
	X  int    `json:"x"`
	Y  int    `json:"y"`
}
type compCase struct {
	TA, BA, TB, BB int64
	Dur            int64
	Reqs           []compReq `json:"requests"`
	FailAt         int       `json:"fail_at,omitempty"`
}

func runCompose(idx int, rng *rand.Rand) {
	c := &compCase{TA: int64(1 + rng.Intn(4)), BA: int64(rng.Intn(2)), TB: int64(1 + rng.Intn(4)), BB: int64(rng.Intn(2)), Dur: int64(1 + rng.Intn(2))}
	for i, n := 0, 20+rng.Intn(40); i < n; i++ {
		c.Reqs = append(c.Reqs, compReq{Dt: []uint64{0, 0, 1, 100, 400, 1000, 1001, 2500}[rng.Intn(8)], X: rng.Intn(3), Y: rng.Intn(3)})
	}
	run.Begin(idx, c)
	mkA := func(res string, thr int64) *hotspot.Rule {
		return &hotspot.Rule{ID: "A", Resource: res, MetricType: hotspot.QPS, ControlBehavior: hotspot.Reject, ParamIndex: 0, Threshold: thr, BurstCount: c.BA, DurationInSec: c.Dur}
	}
	mkB := func(res string) *hotspot.Rule {
		return &hotspot.Rule{ID: "B", Resource: res, MetricType: hotspot.QPS, ControlBehavior: hotspot.Reject, ParamIndex: 1, Threshold: c.TB, BurstCount: c.BB, DurationInSec: c.Dur}
	}
	t0 := clk.Ms() + 3600*1000
	playOn := func(res string, keep []bool) []bool {
		out := make([]bool, len(c.Reqs))
		t := t0
		for i, q := range c.Reqs {
			t += q.Dt
			if keep != nil && !keep[i] {
				continue
			}
			clk.SetMs(t)
			e, b := sentinel.Entry(res, sentinel.WithArgs(q.X, q.Y))
			out[i] = b == nil
			if e != nil {
				e.Exit()
			}
		}
		return out
	}
	caseNo++
	rAB, rA, rB := fmt.Sprintf("c05x-%d-ab", caseNo), fmt.Sprintf("c05x-%d-a", caseNo), fmt.Sprintf("c05x-%d-b", caseNo)
	defer func() {
		for _, r := range []string{rAB, rA, rB} {
			hotspot.ClearRulesOfResource(r)
		}
	}()
	hotspot.LoadRulesOfResource(rAB, []*hotspot.Rule{mkA(rAB, c.TA+7)})
	hotspot.LoadRulesOfResource(rAB, []*hotspot.Rule{mkA(rAB, c.TA), mkB(rAB)})
	hotspot.LoadRulesOfResource(rA, []*hotspot.Rule{mkA(rA, c.TA)})
	hotspot.LoadRulesOfResource(rB, []*hotspot.Rule{mkB(rB)})
	got := playOn(rAB, nil)
	dA := playOn(rA, nil)
	dB := playOn(rB, dA)
	for i := range c.Reqs {
		if want := dA[i] && dB[i]; got[i] != want {
			c.FailAt = i
			run.Violation("C05/composition:rules-not-independent", fmt.Sprintf("request %d (arg0=%d, arg1=%d): with the rules A (argument 0) and B (argument 1) on one resource the decision is admitted=%v; A alone decides %v and B alone (fed with what A admitted) %v", i, c.Reqs[i].X, c.Reqs[i].Y, got[i], dA[i], dB[i]), c)
			return
		}
	}
	run.Count("composition_requests", int64(len(c.Reqs)))
	run.Distinct(vk.Hash("compose", c.TA, c.BA, c.TB, c.BB, c.Dur, c.Reqs))
}

func runCase(idx int, c *caseDesc) {
	t0 := uint64(1900000000000) + uint64(idx)*100000000
	mode := "reject"
	if c.Throttle {
		mode = "throttling"
	}
	failed := false
	fail := func(i int, clause, msg string) {
		if failed {
			return
		}
		failed = true
		c.FailAt = i
		c.Note = msg
		run.Violation("C05/"+mode+":"+clause, msg, c)
	}
	full, ok := play(c, t0, nil, fail)
	if !ok {
		return
	}
	// live values vs capacity: default capacity is far above; explicit Cap may be below
	withinCap := c.Cap == 0 || int64(c.NVals) <= c.Cap
	D := uint64(c.Dur) * 1000
	type adm struct {
		t uint64
		b int64
	}
	perVal := map[int][]adm{}
	firstSeen := map[int]uint64{}
	lastReq := map[int]uint64{}
	lastPass := map[int]int64{}
	sawP, sawB := false, false
	for i, a := range c.Arr {
		d := full[i]
		if a.Val < 0 {
			// request without the selected argument: never limited
			if !d.admitted {
				fail(i, "argless-request-limited", fmt.Sprintf("arrival %d has no selected argument (index %d key %q) but was rejected", i, c.Idx, c.Key))
				return
			}
			if d.sleep != 0 {
				fail(i, "argless-request-limited", fmt.Sprintf("arrival %d has no selected argument but was asked to sleep %v", i, d.sleep))
				return
			}
			continue
		}
		if d.admitted {
			sawP = true
		} else {
			sawB = true
		}
		if !withinCap {
			continue // only the safety clauses (no panic, termination, arg-less) below capacity
		}
		T := c.thrOf(a.Val)
		v := a.Val
		if _, ok := firstSeen[v]; !ok {
			firstSeen[v] = d.at
		}
		if !d.admitted && d.sleep != 0 {
			fail(i, "rejected-request-slept", fmt.Sprintf("arrival %d rejected but asked to sleep %v", i, d.sleep))
			return
		}
		if !c.Throttle {
			if d.sleep != 0 {
				fail(i, "reject-mode-slept", fmt.Sprintf("arrival %d asked to sleep %v under a reject rule", i, d.sleep))
				return
			}
			// E3: idle for longer than the duration (or never seen) => a batch up to the threshold is granted
			lr, seen := lastReq[v]
			if T > 0 && a.Batch <= T && (!seen || d.at-lr > D) && !d.admitted {
				fail(i, "E3:idle-value-not-granted", fmt.Sprintf("arrival %d: value %v idle since %d (now %d, duration %dms), batch %d <= threshold %d, but rejected", i, universe[v], lr, d.at, D, a.Batch, T))
				return
			}
			if d.admitted {
				if T <= 0 {
					fail(i, "zero-threshold-admitted", fmt.Sprintf("arrival %d admitted for value %v whose threshold is %d", i, universe[v], T))
					return
				}
				perVal[v] = append(perVal[v], adm{d.at, a.Batch})
				// E1: long-run envelope from first sight
				var tot int64
				for _, x := range perVal[v] {
					tot += x.b
				}
				// (arbitrary precision: thresholds of 3e9 over 49.7 idle days exceed 64 bits)
				lhs := new(big.Int).Mul(big.NewInt(tot), big.NewInt(int64(D)))
				rhs := new(big.Int).Mul(big.NewInt(T+c.Burst), big.NewInt(int64(D)))
				rhs.Add(rhs, new(big.Int).Mul(big.NewInt(T), big.NewInt(int64(d.at-firstSeen[v]))))
				if lhs.Cmp(rhs) > 0 {
					fail(i, "E1:long-run-envelope", fmt.Sprintf("arrival %d: value %v admitted %d tokens in [%d,%d], envelope (T+burst)+T*elapsed/duration = %d+%d*%d/%d", i, universe[v], tot, firstSeen[v], d.at, T+c.Burst, T, d.at-firstSeen[v], D))
					return
				}
				// E2: any single duration window starting at an admission
				as := perVal[v]
				for s := range as {
					var wsum int64
					for _, x := range as[s:] {
						if x.t < as[s].t+D {
							wsum += x.b
						}
					}
					if wsum > 2*(T+c.Burst) {
						fail(i, "E2:single-window-burst", fmt.Sprintf("arrival %d: value %v admitted %d tokens inside [%d,%d), more than 2*(T+burst)=%d", i, universe[v], wsum, as[s].t, as[s].t+D, 2*(T+c.Burst)))
						return
					}
				}
			}
		} else {
			if d.admitted {
				if T <= 0 {
					fail(i, "zero-threshold-admitted", fmt.Sprintf("arrival %d admitted for value %v whose threshold is %d", i, universe[v], T))
					return
				}
				slMs := int64(d.sleep / time.Millisecond)
				if d.sleep%time.Millisecond != 0 || slMs < 0 {
					fail(i, "sleep-not-ms", fmt.Sprintf("arrival %d sleep %v", i, d.sleep))
					return
				}
				if slMs != 0 && slMs >= c.MaxQ {
					fail(i, "queueing-limit", fmt.Sprintf("arrival %d asked to wait %dms, max queueing time %dms", i, slMs, c.MaxQ))
					return
				}
				pass := int64(d.at) + slMs
				if lp, ok := lastPass[v]; ok {
					cost := a.Batch * int64(D) / T
					if pass-lp < cost {
						fail(i, "spacing", fmt.Sprintf("arrival %d: value %v pass time %d only %dms after the previous pass %d, needs %d (batch %d, threshold %d per %dms)", i, universe[v], pass, pass-lp, lp, cost, a.Batch, T, D))
						return
					}
				}
				lastPass[v] = pass
			}
		}
		lastReq[v] = d.at
	}
	if failed {
		return
	}
	// metamorphic projection: decisions for value v must equal those of the history containing only v
	if withinCap {
		seenVals := map[int]bool{}
		for _, a := range c.Arr {
			if a.Val >= 0 {
				seenVals[a.Val] = true
			}
		}
		checked := 0
		for v := range seenVals {
			if checked >= 3 {
				break
			}
			checked++
			v := v
			proj, ok := play(c, t0, func(a arrival) bool { return a.Val == v }, fail)
			if !ok {
				return
			}
			for i, a := range c.Arr {
				if a.Val != v {
					continue
				}
				if proj[i].admitted != full[i].admitted || proj[i].sleep != full[i].sleep {
					fail(i, "independence:other-values-changed-decision", fmt.Sprintf("arrival %d for value %v: admitted=%v sleep=%v in the full history, admitted=%v sleep=%v when the other values' requests are removed", i, universe[v], full[i].admitted, full[i].sleep, proj[i].admitted, proj[i].sleep))
					return
				}
			}
			run.Count("projections", 1)
		}
	} else {
		run.Count("cases_below_capacity(safety-only)", 1)
	}
	run.Count("arrivals", int64(len(c.Arr)))
	if sawP && sawB && withinCap {
		key := ""
		for _, d := range full {
			if d.admitted {
				key += "p"
			} else {
				key += "b"
			}
		}
		run.Distinct(vk.Hash(key, mode, c.Thr, c.Burst, c.Dur, c.Specific))
	}
}

// parRound: real goroutines under the race detector, frozen clock. The envelope of the statement does not depend
// on the interleaving: inside the first duration after a value was first seen at most threshold+burst tokens may
// be admitted for it, however many callers race on its first sighting.
func parRound(r int, rng *rand.Rand) {
	caseNo++
	res := fmt.Sprintf("c05par-%d", caseNo)
	thr, burst := int64(1+rng.Intn(3)), int64(rng.Intn(2))
	const G, V, tries = 16, 200, 3
	spec := map[interface{}]int64{}
	for v := 0; v < V; v += 7 {
		spec[v] = thr + 1
	}
	hotspot.LoadRulesOfResource(res, []*hotspot.Rule{{ID: res, Resource: res, MetricType: hotspot.QPS, ControlBehavior: hotspot.Reject, ParamIndex: 0,
		Threshold: thr, BurstCount: burst, DurationInSec: 1, SpecificItems: spec}})
	defer hotspot.ClearRulesOfResource(res)
	var admitted [V]int64
	var arrived [V]int32
	var gate [V]chan struct{}
	for v := range gate {
		gate[v] = make(chan struct{})
	}
	var wg sync.WaitGroup
	for g := 0; g < G; g++ {
		wg.Add(1)
		go func() {
			defer wg.Done()
			for v := 0; v < V; v++ {
				// all callers meet at every value so that its first sighting is contended
				if atomic.AddInt32(&arrived[v], 1) == G {
					close(gate[v])
				} else {
					<-gate[v]
				}
				for k := 0; k < tries; k++ {
					e, b := sentinel.Entry(res, sentinel.WithArgs(v))
					if b == nil {
						atomic.AddInt64(&admitted[v], 1)
						e.Exit()
					}
				}
			}
		}()
	}
	wg.Wait()
	for v := 0; v < V; v++ {
		limit := thr + burst
		if t, ok := spec[v]; ok {
			limit = t + burst
		}
		if admitted[v] > limit {
			run.Violation("C05/par:reject-envelope:burst-bound", fmt.Sprintf("round %d: %d tokens admitted for value %d within its first duration (frozen clock), threshold+burst = %d, %d concurrent callers", r, admitted[v], v, limit, G), map[string]interface{}{"round": r, "thr": thr, "burst": burst, "value": v})
			break
		}
		if admitted[v] == 0 {
			run.Violation("C05/par:first-sighting-not-granted", fmt.Sprintf("round %d: no request for the never-seen value %d was admitted (threshold %d)", r, v, limit-burst), map[string]interface{}{"round": r, "thr": thr, "burst": burst, "value": v})
			break
		}
		run.Count("values_checked", 1)
	}
	run.Distinct(vk.Hash("par", r, thr, burst))
	if r < 2 {
		run.Sample(map[string]interface{}{"round": r, "threshold": thr, "burst": burst, "goroutines": G, "values": V, "tries_each": tries})
	}
}

// ---- cooperative engine: traffic_shaping.go compiled against the shimmed atomics and the parameter caches against
// the shimmed locks; 2-3 callers race on the first sighting (or the remaining tokens) of one or two values with a
// frozen clock. Whatever the interleaving, the tokens admitted for a value stay within threshold+burst.
type coopReq struct {
	Val   string `json:"val"`
	Batch int64  `json:"batch"`
}
type coopCase struct {
	Thr, Burst int64
	Pre        int `json:"pre"` // single-token requests for "x" made sequentially before the race
	// Idle > 0: after the warm-up the value stays idle for Idle durations (+1 ms); the racing callers then ask for no
	// more than the threshold in total, so every one of them must be granted
	Idle    int         `json:"idle_durations,omitempty"`
	Workers [][]coopReq `json:"workers"`
	Strat   string      `json:"strategy"`
	Choices []byte      `json:"choices,omitempty"`
}

func coopEngine() {
	run = vk.Start("C05", "coop")
	defer run.Finish()
	run.Rule("schedule = (reject-mode rule threshold 1-3 burst 0-2, 0-2 sequential warm-up requests, 2-3 callers x 1-3 requests of batch 1-2 for values x / y, choice sequence at every atomic access of traffic_shaping.go and every lock acquisition of the parameter caches) under random walk, PCT d<=3 and bounded DFS, frozen clock; tokens admitted per value <= threshold+burst, every caller terminates; distinct = distinct (case, interleaving).")
	run.Assume("frozen clock: all requests lie in the first duration after the value was first seen", "Go atomics sequentially consistent; lock acquisitions are the only scheduling points inside the caches")
	cclk := vclock.New(1900000000000)
	{
		c0 := atomic.LoadUint64(&vatomic.Count)
		hotspot.LoadRulesOfResource("c05-calib", []*hotspot.Rule{{ID: "c", Resource: "c05-calib", MetricType: hotspot.QPS, ControlBehavior: hotspot.Reject, ParamIndex: 0, Threshold: 1, DurationInSec: 1}})
		for k := 0; k < 2; k++ {
			if e, b := sentinel.Entry("c05-calib", sentinel.WithArgs("x")); b == nil {
				e.Exit()
			}
		}
		hotspot.ClearRulesOfResource("c05-calib")
		if atomic.LoadUint64(&vatomic.Count) == c0 {
			run.Inconclusive("observability: requests through a hot-parameter QPS rule executed no shimmed atomic access (was the controller moved out of core/hotspot/traffic_shaping.go?) - no interleaving can be explored")
			return
		}
	}
	gen := func(rng *rand.Rand) *coopCase {
		c := &coopCase{Thr: int64(1 + rng.Intn(3)), Burst: int64(rng.Intn(3)), Pre: rng.Intn(3)}
		if rng.Intn(4) == 0 {
			c.Thr, c.Idle, c.Pre = 3, 1+rng.Intn(5), rng.Intn(6)
			for w, k := 0, 2+rng.Intn(2); w < k; w++ {
				c.Workers = append(c.Workers, []coopReq{{Val: "x", Batch: 1}})
			}
			return c
		}
		for w, k := 0, 2+rng.Intn(2); w < k; w++ {
			var rs []coopReq
			for i, n := 0, 1+rng.Intn(3); i < n; i++ {
				rs = append(rs, coopReq{Val: vk.PickS(rng, "x", "x", "x", "y"), Batch: int64(vk.PickI(rng, 1, 1, 2))})
			}
			c.Workers = append(c.Workers, rs)
		}
		return c
	}
	do := func(c *coopCase, ch coop.Chooser) {
		caseNo++
		res := fmt.Sprintf("c05co-%d", caseNo)
		hotspot.LoadRulesOfResource(res, []*hotspot.Rule{{ID: res, Resource: res, MetricType: hotspot.QPS, ControlBehavior: hotspot.Reject, ParamIndex: 0,
			Threshold: c.Thr, BurstCount: c.Burst, DurationInSec: 1}})
		defer hotspot.ClearRulesOfResource(res)
		admitted := map[string]int64{}
		for i := 0; i < c.Pre; i++ {
			if e, b := sentinel.Entry(res, sentinel.WithArgs("x")); b == nil {
				admitted["x"]++
				e.Exit()
			}
		}
		rejectedAfterIdle := 0
		if c.Idle > 0 {
			cclk.AddMs(uint64(c.Idle)*1000 + 1)
			admitted = map[string]int64{}
		}
		fns := make([]func(), len(c.Workers))
		for w := range c.Workers {
			w := w
			fns[w] = func() {
				for _, r := range c.Workers[w] {
					e, b := sentinel.Entry(res, sentinel.WithArgs(r.Val), sentinel.WithBatchCount(uint32(r.Batch)))
					if b == nil {
						admitted[r.Val] += r.Batch
						e.Exit()
					} else {
						rejectedAfterIdle++
					}
				}
			}
		}
		r := coop.Run(ch, coop.Options{Adversarial: 1500, FairTail: 20000}, fns...)
		if r.Stuck {
			run.Abort("scheduler: a worker did not reach a yield point (wall-clock guard); the process is abandoned")
			return
		}
		c.Choices = r.Choices
		if len(r.NonTerminated) > 0 {
			run.Violation("C05/coop:non-termination", fmt.Sprintf("callers %v did not return within 20000 fair steps", r.NonTerminated), c)
			return
		}
		for w, p := range r.Panics {
			run.Violation("C05/coop:panic", fmt.Sprintf("caller %d panicked: %s", w, p), c)
			return
		}
		if c.Idle > 0 {
			if rejectedAfterIdle > 0 {
				run.Violation("C05/coop:idle-value-not-granted", fmt.Sprintf("value \"x\" had been idle for %d durations; %d concurrent single-token requests (threshold %d) arrived and %d of them were rejected", c.Idle, len(c.Workers), c.Thr, rejectedAfterIdle), c)
				return
			}
			run.Distinct(vk.Hash("idle", c.Burst, c.Pre, c.Idle, len(c.Workers), string(r.Choices)))
			return
		}
		for v, n := range admitted {
			if n > c.Thr+c.Burst {
				run.Violation("C05/coop:reject-envelope:burst-bound", fmt.Sprintf("%d tokens admitted for value %q inside one duration (frozen clock), threshold+burst = %d", n, v, c.Thr+c.Burst), c)
				return
			}
		}
		run.Distinct(vk.Hash(c.Thr, c.Burst, c.Pre, c.Workers, string(r.Choices)))
	}
	n := run.N(6000, 400000)
	for i := 0; i < n; i++ {
		if run.Skip(i) {
			continue
		}
		rng := run.Rand(i)
		c := gen(rng)
		var ch coop.Chooser
		if i%4 == 0 {
			c.Strat = "random"
			ch = &coop.Random{R: rng}
		} else {
			d := 1 + rng.Intn(3)
			c.Strat = fmt.Sprintf("pct-d%d", d)
			ch = coop.NewPCT(rng, len(c.Workers), d, 40)
		}
		run.Eval(i)
		if i < 2 {
			run.Sample(c)
		}
		do(c, ch)
	}
	if !run.Replaying() {
		for j, nd := 0, run.N(4, 60); j < nd; j++ {
			c := gen(run.Rand(5_000_000 + j))
			c.Workers = c.Workers[:2]
			c.Strat = "dfs-2-preemptions"
			d := &coop.DFS{MaxPreempt: 2}
			cnt := 0
			for d.Next() && cnt < 20000 {
				cnt++
				run.Eval(5_000_000 + j)
				cc := *c
				do(&cc, d)
			}
			run.Count("dfs_schedules", int64(cnt))
		}
	}
}

func main() {
	sx.Quiet()
	if os.Getenv("VERIF_MODE") == "coop" {
		coopEngine()
		return
	}
	if os.Getenv("VERIF_MODE") == "par" {
		run = vk.Start("C05", "par")
		defer run.Finish()
		run.Rule("round = 16 goroutines meeting at each of 200 never-seen values (barrier) and each trying 3 single-token requests on a reject-mode rule (threshold 1-3, burst 0-1, some specific items) with a frozen virtual clock, race detector on; per value the admitted tokens must be within threshold+burst and at least one; distinct = rounds.")
		run.Assume("frozen clock: every request lies in the first duration after its value was first seen")
		vclock.New(1900000000000)
		n := run.N(12, 300)
		for i := 0; i < n; i++ {
			if run.Skip(i) {
				continue
			}
			run.Eval(i)
			parRound(i, run.Rand(i))
		}
		return
	}
	run = vk.Start("C05", "seq")
	defer run.Finish()
	run.Rule("case = one hot-param QPS rule (reject or throttling; threshold 0-50, burst 0-10, duration 1-5 s, queueing 0-3000 ms, index 0/2/-1/-3 or attachment key, specific items, optional capacity possibly below the 1-12 live values) + 30-150 arrivals (value or no selected argument, batch, hostile deltas around the duration); envelopes E1/E2/E3, spacing and queueing bound per value, arg-less never limited, projection equality on up to 3 values; every sixth case: two rules on different arguments installed by a reload, decisions = (A alone) AND (B alone fed with what A admitted); distinct = distinct (decision trace, rule) with a pass and a block.")
	run.Assume("sequential callers; sleeps are recorded, not slept (pass time = arrival + requested sleep)", "envelopes asserted only while distinct live values <= configured capacity", "spacing uses the controller's ms clock: floor(batch*duration/threshold)")
	clk = vclock.New(1900000000000)
	clk.ReadLimit = 1000000
	n := run.N(400, 15000)
	for i := 0; i < n; i++ {
		if run.Skip(i) {
			continue
		}
		if i%6 == 5 {
			rng := run.Rand(i)
			run.Guard("C05/panic", nil, func() { runCompose(i, rng) })
			continue
		}
		c := genCase(run.Rand(i))
		run.Begin(i, c)
		if i < 2 {
			cc := *c
			if len(cc.Arr) > 10 {
				cc.Arr = cc.Arr[:10]
			}
			run.Sample(cc)
		}
		run.Guard("C05/panic", c, func() { runCase(i, c) })
	}
	// long histories under a large configured capacity: a value's bucket survives thousands of other values as long
	// as their number stays below the capacity the rule asks for ("while the configured parameter capacity is not exceeded")
	caps := [][3]int64{{6000, 1, 4300}, {4500, 1, 4100}, {9000, 2, 8500}, {21000, 10, 20400}, {25000, 3, 12500}, {5000, 1, 4990}}
	for i := n; i < n+run.N(3, len(caps)); i++ {
		if run.Skip(i) {
			continue
		}
		k := caps[(i-n)%len(caps)]
		d := map[string]interface{}{"capacity": k[0], "duration_s": k[1], "other_values": k[2]}
		run.Begin(i, d)
		run.Guard("C05/panic", d, func() { largeCapacity(i, k[0], k[1], int(k[2])) })
	}
}

func largeCapacity(idx int, capacity, dur int64, others int) {
	caseNo++
	res := fmt.Sprintf("c05-cap-%d", caseNo)
	const T, B = 2, 1
	hotspot.LoadRulesOfResource(res, []*hotspot.Rule{{ID: "cap", Resource: res, MetricType: hotspot.QPS, ParamIndex: 0, Threshold: T, BurstCount: B,
		DurationInSec: dur, ParamsMaxCapacity: capacity}})
	defer hotspot.ClearRulesOfResource(res)
	clk.SetMs(clk.Ms() + 3600*1000)
	clk.ResetReads()
	hit := func(v interface{}) bool {
		e, b := sentinel.Entry(res, sentinel.WithArgs(v))
		if b == nil {
			e.Exit()
		}
		return b == nil
	}
	got := 0
	for j := 0; j < T+B+2; j++ {
		if hit("kept") {
			got++
		}
	}
	for j := 0; j < others; j++ {
		hit(j)
		if j%1000 == 999 {
			clk.ResetReads()
		}
	}
	clk.ResetReads()
	for j := 0; j < 3; j++ {
		if hit("kept") {
			got++
		}
	}
	if got != T+B {
		run.Violation("C05/isolation:large-capacity", fmt.Sprintf("reject rule threshold %d burst %d duration %d s, configured parameter capacity %d, frozen clock: value \"kept\" was admitted %d tokens in all (want exactly %d) - %d requests before and 3 after %d other values were seen (fewer than the configured capacity): its bucket was forgotten or never filled", T, B, dur, capacity, got, T+B, T+B+2, others), map[string]interface{}{"case": idx, "capacity": capacity, "duration_s": dur, "other_values": others})
	}
	run.Count("large_capacity_histories", 1)
	run.Distinct(vk.Hash("largecap", capacity, others))
}
