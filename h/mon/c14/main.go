// C14 monitor: metamorphic twin executions. Run A never reloads; run B replays
// the same operations at the same relative virtual instants (shifted by one hour,
// a multiple of every window length) and reloads the rule list in the middle -
// keeping one rule field-for-field identical while the other rules are added,
// removed, modified, duplicated or reordered. The decision traces must be equal.
// Second clause: a modified rule with unchanged statistic parameters keeps its
// accumulated statistics.
package main

import (
	"os"
	"errors"
	"fmt"
	"math/rand"
	"strings"
	"time"

	sentinel "github.com/alibaba/sentinel-golang/api"
	"github.com/alibaba/sentinel-golang/core/base"
	cb "github.com/alibaba/sentinel-golang/core/circuitbreaker"
	"github.com/alibaba/sentinel-golang/core/flow"
	"github.com/alibaba/sentinel-golang/core/hotspot"

	"verif/sx"
	"verif/vclock"
	"verif/vk"
)

type op struct {
	K    string `json:"k"` // req | end | adv
	Dt   uint64 `json:"dt,omitempty"`
	Arg  string `json:"arg,omitempty"`
	Err  bool   `json:"err,omitempty"`
	Pick int    `json:"pick,omitempty"`
	Hold bool   `json:"hold,omitempty"`
}

type caseDesc struct {
	Family   string `json:"family"`
	Variant  int    `json:"variant"` // parameters of the unchanged rule
	Edit     string `json:"edit"`    // what happens to the OTHER rules in the reload
	Path     string `json:"path"`    // whole-set | per-resource
	ReloadAt int    `json:"reload_at"`
	Ops      []op   `json:"ops"`
	Note     string `json:"note,omitempty"`
}

type obs struct {
	Adm   bool
	BT    base.BlockType
	Rule  string
	Sleep time.Duration
}

var run *vk.Run
var clk *vclock.Clock
var caseNo int

// family describes how to build the rule lists and which ops make sense.
type family struct {
	name string
	// load installs the list for run-resource R / other resource O; stage 0 = initial, 1 = after the edit
	load   func(R, O string, c *caseDesc, stage int, perRes bool)
	clear  func()
	genOp  func(rng *rand.Rand, i int) op
	nops   func(rng *rand.Rand) int
	ruleID func(b *base.BlockError) string
}

var edits = []string{"none(identical list)", "other-resource-add", "other-resource-remove", "other-resource-modify", "same-resource-add-inert-before", "same-resource-add-inert-after", "same-resource-remove-inert", "same-resource-modify-inert", "duplicate-kept", "reorder",
	// a never-binding rule with the SAME statistic parameters as the unchanged rule is modified and moved in front of it
	"stat-sharing-rule-modified-and-moved-before",
	// ... or stands in front of it and is removed, or modified and moved behind it
	"stat-sharing-rule-before-removed", "stat-sharing-rule-before-modified-and-moved-after",
	// ... or is new in the list (it must get a statistic of its own, not the unchanged rule's)
	"stat-sharing-rule-added-after", "stat-sharing-rule-added-before",
	// ... or two of them stand in front of the unchanged rule and go
	"two-stat-sharing-rules-before-removed"}

// list layout helper: returns the positions of (inert rules, unchanged rule) for the stage
//
//	stage 0: depends on the edit so that the edit is possible (e.g. remove needs an inert rule to be present)
//
// shareLayout: for the stat-sharing edits: 0 = no such rule, 1 = after the unchanged rule (original), 2 = before it
// (modified), 3 = before it (original), 4 = after it (modified)
func shareLayout(edit string, stage int) int {
	switch edit {
	case "stat-sharing-rule-modified-and-moved-before": // [U, S] -> [S', U]
		return 1 + stage
	case "stat-sharing-rule-before-removed": // [S, U] -> [U]
		return 3 * (1 - stage)
	case "stat-sharing-rule-before-modified-and-moved-after": // [S, U] -> [U, S']
		return 3 + stage
	case "two-stat-sharing-rules-before-removed": // [S1, S2, U] -> [U]
		return 5 * (1 - stage)
	case "stat-sharing-rule-added-after": // [U] -> [U, S]
		return stage
	case "stat-sharing-rule-added-before": // [U] -> [S, U]
		return 3 * stage
	}
	return 0
}

func layout(edit string, stage int) (inertBefore, inertAfter int, dup bool, inertVariant int, other int) {
	// other: 0 none, 1 threshold v1, 2 threshold v2
	switch edit {
	case "none(identical list)":
		return 1, 0, false, 0, 1
	case "other-resource-add":
		return 0, 0, false, 0, stage // absent then present
	case "other-resource-remove":
		return 0, 0, false, 0, 1 - stage
	case "other-resource-modify":
		return 0, 0, false, 0, 1 + stage
	case "same-resource-add-inert-before":
		return stage, 0, false, 0, 1
	case "same-resource-add-inert-after":
		return 0, stage, false, 0, 1
	case "same-resource-remove-inert":
		return 1 - stage, 1, false, 0, 1
	case "same-resource-modify-inert":
		return 1, 0, false, stage, 1
	case "duplicate-kept":
		return 0, stage, true, 0, 1
	case "reorder":
		return 1 - stage, stage, false, 0, 1
	case "stat-sharing-rule-modified-and-moved-before", "stat-sharing-rule-before-removed", "stat-sharing-rule-before-modified-and-moved-after", "stat-sharing-rule-added-after", "stat-sharing-rule-added-before", "two-stat-sharing-rules-before-removed":
		return 0, 0, false, 0, 1
	}
	return 0, 0, false, 0, 0
}

// ------------------------------------------------------------------ flow families

func flowRule(R string, fam string, variant int) *flow.Rule {
	switch fam {
	case "flow-reject":
		iv := []uint32{0, 300, 3000, 2000}[variant%4]
		return &flow.Rule{ID: "unchanged", Resource: R, TokenCalculateStrategy: flow.Direct, ControlBehavior: flow.Reject, Threshold: float64(2 + variant%3), StatIntervalInMs: iv}
	case "flow-throttling":
		return &flow.Rule{ID: "unchanged", Resource: R, TokenCalculateStrategy: flow.Direct, ControlBehavior: flow.Throttling, Threshold: float64(5 + 5*(variant%3)), MaxQueueingTimeMs: 400}
	case "flow-associated":
		// the unchanged rule meters the traffic of ANOTHER resource (R-ref), on the shared or on its own window
		return &flow.Rule{ID: "unchanged", Resource: R, TokenCalculateStrategy: flow.Direct, ControlBehavior: flow.Reject, Threshold: float64(2 + variant%3),
			RelationStrategy: flow.AssociatedResource, RefResource: R + "-ref", StatIntervalInMs: []uint32{0, 300, 3000, 20000}[variant%4]} // (all divide the one-hour shift between the twin runs)
	default: // flow-warmup
		return &flow.Rule{ID: "unchanged", Resource: R, TokenCalculateStrategy: flow.WarmUp, ControlBehavior: flow.Reject, Threshold: float64(10 + 10*(variant%2)), WarmUpPeriodSec: uint32(3 + variant%3), WarmUpColdFactor: uint32(3 * (variant % 2))}
	}
}

func flowFamily(name string) *family {
	f := &family{name: name}
	f.load = func(R, O string, c *caseDesc, stage int, perRes bool) {
		ib, ia, dup, iv, other := layout(c.Edit, stage)
		inert := func(k int) *flow.Rule {
			return &flow.Rule{ID: fmt.Sprintf("inert%d", k), Resource: R, TokenCalculateStrategy: flow.Direct, ControlBehavior: flow.Reject, Threshold: 1e9 + float64(iv), StatIntervalInMs: 700}
		}
		// never-binding rule sharing the unchanged rule's statistic parameters (same strategy kind, interval, relation)
		share := func(modified bool) *flow.Rule {
			x := flowRule(R, name, c.Variant)
			x.ID = "sharing"
			x.Threshold = 1e9
			if modified {
				x.Threshold = 2e9
			}
			if x.ControlBehavior == flow.Throttling {
				// (a throttling rule is never inert: it asks for sleeps of >= 1 ns however large its threshold)
				x.ControlBehavior = flow.Reject
			}
			return x
		}
		var rs []*flow.Rule
		for k := 0; k < ib; k++ {
			rs = append(rs, inert(k))
		}
		if sl := shareLayout(c.Edit, stage); sl == 2 || sl == 3 {
			rs = append(rs, share(sl == 2))
		} else if sl == 5 {
			s1, s2 := share(false), share(true)
			rs = append(rs, s1, s2)
		}
		rs = append(rs, flowRule(R, name, c.Variant))
		if sl := shareLayout(c.Edit, stage); sl == 1 || sl == 4 {
			rs = append(rs, share(sl == 4))
		}
		if dup {
			rs = append(rs, flowRule(R, name, c.Variant))
		}
		for k := 0; k < ia; k++ {
			rs = append(rs, inert(10+k))
		}
		otherThr := float64(other)
		if name == "flow-associated" {
			// the "other" resource is the referenced one and its own rule is inert (a binding rule there would
			// legitimately change what the unchanged rule counts)
			O, otherThr = R+"-ref", 1e9+float64(other)
		}
		otherRule := func() *flow.Rule {
			return &flow.Rule{ID: "other", Resource: O, TokenCalculateStrategy: flow.Direct, ControlBehavior: flow.Reject, Threshold: otherThr}
		}
		if name == "flow-associated" && (c.Variant/4)%2 == 1 && strings.HasPrefix(c.Edit, "other-resource") {
			// ... or a sibling resource whose own (never binding) rule meters the SAME referenced resource on a window of
			// its own: adding, replacing or clearing the sibling's rules must not disturb what the unchanged rule counts
			O = R + "-sib"
			otherRule = func() *flow.Rule {
				return &flow.Rule{ID: "other", Resource: O, TokenCalculateStrategy: flow.Direct, ControlBehavior: flow.Reject, Threshold: otherThr,
					RelationStrategy: flow.AssociatedResource, RefResource: R + "-ref", StatIntervalInMs: 20000}
			}
		}
		if perRes {
			if name == "flow-associated" && strings.HasPrefix(c.Edit, "other-resource") {
				if stage == 0 {
					flow.LoadRulesOfResource(R, rs)
				}
				if other > 0 {
					flow.LoadRulesOfResource(O, []*flow.Rule{otherRule()})
				} else {
					flow.ClearRulesOfResource(O)
				}
				return
			}
			flow.LoadRulesOfResource(R, rs)
			return
		}
		if other > 0 {
			rs = append(rs, otherRule())
		}
		flow.LoadRules(rs)
	}
	f.clear = func() { flow.ClearRules() }
	f.ruleID = func(b *base.BlockError) string {
		if r, ok := b.TriggeredRule().(*flow.Rule); ok && r != nil {
			return r.ID
		}
		return "?"
	}
	switch name {
	case "flow-reject":
		f.nops = func(rng *rand.Rand) int { return 20 + rng.Intn(40) }
		f.genOp = func(rng *rand.Rand, i int) op {
			if rng.Intn(3) == 0 {
				return op{K: "adv", Dt: []uint64{50, 100, 250, 500, 1000, 1500}[rng.Intn(6)]}
			}
			return op{K: "req"}
		}
	case "flow-throttling":
		f.nops = func(rng *rand.Rand) int { return 20 + rng.Intn(40) }
		f.genOp = func(rng *rand.Rand, i int) op {
			if rng.Intn(3) == 0 {
				return op{K: "adv", Dt: []uint64{1, 20, 50, 100, 200, 600}[rng.Intn(6)]}
			}
			return op{K: "req"}
		}
	case "flow-associated":
		f.nops = func(rng *rand.Rand) int { return 20 + rng.Intn(50) }
		f.genOp = func(rng *rand.Rand, i int) op {
			switch k := rng.Intn(10); {
			case k < 2:
				return op{K: "adv", Dt: []uint64{50, 100, 250, 500, 700, 1000, 1500}[rng.Intn(7)]}
			case k < 6:
				return op{K: "ref"} // a request on the referenced resource
			}
			return op{K: "req"}
		}
	default:
		f.nops = func(rng *rand.Rand) int { return 300 + rng.Intn(400) }
		f.genOp = func(rng *rand.Rand, i int) op {
			if i%3 == 2 {
				return op{K: "adv", Dt: 20}
			}
			return op{K: "req"}
		}
	}
	return f
}

// ------------------------------------------------------------------ breaker family

func cbFamily() *family {
	f := &family{name: "breaker"}
	f.load = func(R, O string, c *caseDesc, stage int, perRes bool) {
		ib, ia, dup, iv, other := layout(c.Edit, stage)
		mk := func() *cb.Rule {
			return &cb.Rule{Id: "unchanged", Resource: R, Strategy: cb.Strategy(1 + c.Variant%2), RetryTimeoutMs: uint32(300 + 400*(c.Variant%3)), MinRequestAmount: 2, StatIntervalMs: 5000,
				// (bucket counts that divide the interval, that do not - the library then uses one bucket - and unset)
				StatSlidingWindowBucketCount: []uint32{5, 3, 0, 7}[c.Variant%4], Threshold: []float64{0.5, 2}[c.Variant%2], ProbeNum: uint64(c.Variant % 2)}
		}
		inert := func(k int) *cb.Rule {
			return &cb.Rule{Id: fmt.Sprintf("inert%d", k), Resource: R, Strategy: cb.ErrorCount, RetryTimeoutMs: 1000, MinRequestAmount: 1, StatIntervalMs: 10000, Threshold: 1e9 + float64(iv)}
		}
		share := func(modified bool) *cb.Rule {
			x := mk()
			x.Id = "sharing"
			x.MinRequestAmount = 1000000000 // never trips
			if modified {
				x.MinRequestAmount = 2000000000
			}
			return x
		}
		var rs []*cb.Rule
		for k := 0; k < ib; k++ {
			rs = append(rs, inert(k))
		}
		if sl := shareLayout(c.Edit, stage); sl == 2 || sl == 3 {
			rs = append(rs, share(sl == 2))
		} else if sl == 5 {
			s1, s2 := share(false), share(true)
			rs = append(rs, s1, s2)
		}
		rs = append(rs, mk())
		if sl := shareLayout(c.Edit, stage); sl == 1 || sl == 4 {
			rs = append(rs, share(sl == 4))
		}
		if dup {
			rs = append(rs, mk())
		}
		for k := 0; k < ia; k++ {
			rs = append(rs, inert(10+k))
		}
		if perRes {
			cb.LoadRulesOfResource(R, rs)
			return
		}
		if other > 0 {
			rs = append(rs, &cb.Rule{Id: "other", Resource: O, Strategy: cb.ErrorCount, RetryTimeoutMs: 100, MinRequestAmount: 1, StatIntervalMs: 1000, Threshold: float64(other)})
		}
		cb.LoadRules(rs)
	}
	f.clear = func() { cb.ClearRules() }
	f.ruleID = func(b *base.BlockError) string {
		if r, ok := b.TriggeredRule().(*cb.Rule); ok && r != nil {
			return r.Id
		}
		return "?"
	}
	f.nops = func(rng *rand.Rand) int { return 40 + rng.Intn(80) }
	f.genOp = func(rng *rand.Rand, i int) op {
		switch k := rng.Intn(10); {
		case k < 4:
			return op{K: "req", Hold: true}
		case k < 8:
			return op{K: "end", Err: rng.Intn(2) == 0, Pick: rng.Intn(1 << 16)}
		default:
			return op{K: "adv", Dt: []uint64{10, 100, 299, 300, 700, 1000, 1100, 2500}[rng.Intn(8)]}
		}
	}
	return f
}

// ------------------------------------------------------------------ hotspot families

func hotFamily(name string) *family {
	f := &family{name: name}
	f.load = func(R, O string, c *caseDesc, stage int, perRes bool) {
		ib, ia, dup, iv, other := layout(c.Edit, stage)
		mk := func() *hotspot.Rule {
			if name == "hotspot-qps" {
				return &hotspot.Rule{ID: "unchanged", Resource: R, MetricType: hotspot.QPS, ControlBehavior: hotspot.ControlBehavior(c.Variant % 2), ParamIndex: 0, Threshold: int64(2 + c.Variant%3),
					BurstCount: int64(c.Variant % 2), DurationInSec: 1, MaxQueueingTimeMs: 300, SpecificItems: map[interface{}]int64{"vip": 5}}
			}
			return &hotspot.Rule{ID: "unchanged", Resource: R, MetricType: hotspot.Concurrency, ParamIndex: 0, Threshold: int64(1 + c.Variant%3)}
		}
		inert := func(k int) *hotspot.Rule {
			return &hotspot.Rule{ID: fmt.Sprintf("inert%d", k), Resource: R, MetricType: hotspot.QPS, ParamIndex: 0, Threshold: 1000000 + int64(iv), DurationInSec: 2}
		}
		share := func(modified bool) *hotspot.Rule {
			x := mk()
			x.ID = "sharing"
			x.Threshold = 1000000
			x.SpecificItems = nil
			if modified {
				x.Threshold = 2000000
			}
			if x.ControlBehavior == hotspot.Throttling {
				// (a pacing rule is never inert: however large its threshold it may ask for a sleep of one clock tick)
				x.ControlBehavior = hotspot.Reject
			}
			return x
		}
		var rs []*hotspot.Rule
		for k := 0; k < ib; k++ {
			rs = append(rs, inert(k))
		}
		if sl := shareLayout(c.Edit, stage); sl == 2 || sl == 3 {
			rs = append(rs, share(sl == 2))
		} else if sl == 5 {
			s1, s2 := share(false), share(true)
			rs = append(rs, s1, s2)
		}
		rs = append(rs, mk())
		if sl := shareLayout(c.Edit, stage); sl == 1 || sl == 4 {
			rs = append(rs, share(sl == 4))
		}
		if dup {
			rs = append(rs, mk())
		}
		for k := 0; k < ia; k++ {
			rs = append(rs, inert(10+k))
		}
		if perRes {
			hotspot.LoadRulesOfResource(R, rs)
			return
		}
		if other > 0 {
			rs = append(rs, &hotspot.Rule{ID: "other", Resource: O, MetricType: hotspot.Concurrency, ParamIndex: 0, Threshold: int64(other)})
		}
		hotspot.LoadRules(rs)
	}
	f.clear = func() { hotspot.ClearRules() }
	f.ruleID = func(b *base.BlockError) string {
		if r, ok := b.TriggeredRule().(*hotspot.Rule); ok && r != nil {
			return r.ID
		}
		return "?"
	}
	f.nops = func(rng *rand.Rand) int { return 30 + rng.Intn(60) }
	if name == "hotspot-qps" {
		f.genOp = func(rng *rand.Rand, i int) op {
			if rng.Intn(3) == 0 {
				return op{K: "adv", Dt: []uint64{10, 100, 300, 500, 1000, 1001, 2500}[rng.Intn(7)]}
			}
			return op{K: "req", Arg: vk.PickS(rng, "a", "a", "b", "vip")}
		}
	} else {
		f.genOp = func(rng *rand.Rand, i int) op {
			switch k := rng.Intn(10); {
			case k < 5:
				return op{K: "req", Arg: vk.PickS(rng, "a", "a", "b"), Hold: true}
			case k < 9:
				return op{K: "end", Pick: rng.Intn(1 << 16)}
			default:
				return op{K: "adv", Dt: 100}
			}
		}
	}
	return f
}

var families = []*family{flowFamily("flow-reject"), flowFamily("flow-throttling"), flowFamily("flow-warmup"), flowFamily("flow-associated"), cbFamily(), hotFamily("hotspot-qps"), hotFamily("hotspot-concurrency")}

func exec(f *family, c *caseDesc, reload bool, t0 uint64) []obs {
	caseNo++
	R := fmt.Sprintf("c14-%d-R", caseNo)
	O := fmt.Sprintf("c14-%d-O", caseNo)
	clk.SetMs(t0)
	f.clear()
	f.load(R, O, c, 0, false)
	defer f.clear()
	var out []obs
	var lives []*base.SentinelEntry
	for i, o := range c.Ops {
		if reload && i == c.ReloadAt {
			f.load(R, O, c, 1, c.Path == "per-resource")
		}
		switch o.K {
		case "adv":
			clk.AddMs(o.Dt)
		case "ref":
			e, b := sentinel.Entry(R + "-ref")
			out = append(out, obs{Adm: b == nil})
			if b == nil {
				e.Exit()
			}
		case "req":
			clk.TakeSleeps()
			var opts []sentinel.EntryOption
			if o.Arg != "" {
				opts = append(opts, sentinel.WithArgs(o.Arg))
			}
			e, b := sentinel.Entry(R, opts...)
			ob := obs{Adm: b == nil}
			for _, s := range clk.TakeSleeps() {
				ob.Sleep += s
			}
			if b != nil {
				ob.BT = b.BlockType()
				ob.Rule = f.ruleID(b)
			} else if o.Hold && len(lives) < 6 {
				lives = append(lives, e)
			} else {
				e.Exit()
			}
			out = append(out, ob)
		case "end":
			if len(lives) == 0 {
				continue
			}
			k := o.Pick % len(lives)
			e := lives[k]
			lives = append(lives[:k], lives[k+1:]...)
			if o.Err {
				sentinel.TraceError(e, errors.New("biz"))
			}
			e.Exit()
		}
	}
	for _, e := range lives {
		e.Exit()
	}
	return out
}

// ------------------------------------------------------------------ statistics kept by a modified rule

func keptStats(i int, rng *rand.Rand) {
	caseNo++
	R := fmt.Sprintf("c14-%d-K", caseNo)
	clk.AddMs(3600 * 1000)
	clk.SetMs(clk.Ms() - clk.Ms()%10000 + 10)
	path := vk.PickS(rng, "whole-set", "per-resource")
	count := func(opts ...sentinel.EntryOption) int {
		n := 0
		for n < 30 {
			e, b := sentinel.Entry(R, opts...)
			if b != nil {
				break
			}
			e.Exit()
			n++
		}
		return n
	}
	bad := func(fam, msg string) {
		run.Violation("C14/modified-rule-lost-statistics:"+fam, fmt.Sprintf("[%s, %s path] %s", fam, path, msg), map[string]interface{}{"family": fam, "path": path, "case": i})
	}
	if os.Getenv("VERIF_C14_FAMILY") == "hotspot" && i%6 != 4 && i%6 != 3 && i%6 != 2 {
		return // (run for C05: hot-parameter cases only)
	}
	switch i % 6 {
	case 5: // three breakers on one resource: A unchanged; B and C have the same statistic parameters and are both modified
		// (thresholds only) after their windows have diverged (C tripped on 3 errors and was closed again by its probe,
		// which cleared C's own counters; B still holds the 3 errors): each keeps ITS OWN statistic
		mk := func(tb, tc float64) []*cb.Rule {
			return []*cb.Rule{
				{Id: "a", Resource: R, Strategy: cb.SlowRequestRatio, RetryTimeoutMs: 1000, MinRequestAmount: 1000, StatIntervalMs: 10000, MaxAllowedRtMs: 10000, Threshold: 1},
				{Id: "b", Resource: R, Strategy: cb.ErrorCount, RetryTimeoutMs: 5000, MinRequestAmount: 1, StatIntervalMs: 10000, Threshold: tb},
				{Id: "c", Resource: R, Strategy: cb.ErrorCount, RetryTimeoutMs: 1000, MinRequestAmount: 1, StatIntervalMs: 10000, Threshold: tc}}
		}
		req := func(fail bool) bool {
			e, b := sentinel.Entry(R)
			if b != nil {
				return false
			}
			if fail {
				sentinel.TraceError(e, errors.New("x"))
			}
			e.Exit()
			return true
		}
		cb.LoadRules(mk(10, 3))
		ok := req(true) && req(true) && req(true) && !req(false)
		clk.AddMs(1100)
		ok = ok && req(false)
		if path == "whole-set" {
			cb.LoadRules(mk(4, 5))
		} else {
			cb.LoadRulesOfResource(R, mk(4, 5))
		}
		clk.AddMs(100)
		ok = ok && req(true)
		if ok && req(false) {
			bad("breaker-siblings-with-equal-statistic-parameters", "two error-count breakers with equal statistic parameters: C (threshold 3) tripped on 3 errors and was closed by its probe, B (threshold 10) kept counting; thresholds then changed to B=4, C=5: the 4th error in the window must open B (3 kept + 1), but the next request was admitted: B did not keep its own 3 errors")
		}
		if !ok {
			run.Count("kept_statistics_sibling_setup_failed", 1)
		}
		cb.ClearRules()
	case 4: // hot-parameter throttling rule, one pass per 10 s per value: after a pass for "v" the rule is reloaded with
		// another burst count (meaningless for throttling: the same rule) or a doubled threshold (same statistic
		// parameters): the last pass time of "v" is kept, a request 1 s later is still too early
		variant := vk.PickS(rng, "burst-count", "threshold")
		mk := func(mod bool) []*hotspot.Rule {
			r := &hotspot.Rule{ID: "m", Resource: R, MetricType: hotspot.QPS, ControlBehavior: hotspot.Throttling, ParamIndex: 0, Threshold: 1, DurationInSec: 10, BurstCount: 1}
			if mod && variant == "burst-count" {
				r.BurstCount = 4
			}
			if mod && variant == "threshold" {
				r.Threshold = 2
			}
			return []*hotspot.Rule{r}
		}
		hotspot.LoadRules(mk(false))
		first := 0
		if e, b := sentinel.Entry(R, sentinel.WithArgs("v")); b == nil {
			e.Exit()
			first++
		}
		clk.AddMs(1000)
		if path == "whole-set" {
			hotspot.LoadRules(mk(true))
		} else {
			hotspot.LoadRulesOfResource(R, mk(true))
		}
		if e, b := sentinel.Entry(R, sentinel.WithArgs("v")); b == nil {
			e.Exit()
			if first == 1 {
				bad("hotspot-throttling-"+variant, fmt.Sprintf("one pass per 10 s per value (no queueing); value \"v\" passed, the rule was reloaded 1 s later with only its %s changed (same statistic parameters), and \"v\" passed again at once: its last pass time was lost", variant))
			}
		}
		hotspot.ClearRules()
	case 0: // flow reject rule with a standalone 3000 ms window: threshold 5 -> 8 after k admissions
		k := 1 + rng.Intn(5)
		mk := func(t float64) []*flow.Rule {
			return []*flow.Rule{{ID: "m", Resource: R, TokenCalculateStrategy: flow.Direct, ControlBehavior: flow.Reject, Threshold: t, StatIntervalInMs: 3000}}
		}
		flow.LoadRules(mk(5))
		for j := 0; j < k; j++ {
			if e, b := sentinel.Entry(R); b == nil {
				e.Exit()
			}
		}
		clk.AddMs(20)
		if path == "whole-set" {
			flow.LoadRules(mk(8))
		} else {
			flow.LoadRulesOfResource(R, mk(8))
		}
		if got := count(); got != 8-k {
			bad("flow-standalone-window", fmt.Sprintf("threshold raised 5->8 (same statistic interval) after %d admissions in the window: %d further admissions, expected %d", k, got, 8-k))
		}
		flow.ClearRules()
	case 1: // breaker: error count 3 -> 5 with 2 errors recorded
		mk := func(t float64) []*cb.Rule {
			return []*cb.Rule{{Id: "m", Resource: R, Strategy: cb.ErrorCount, RetryTimeoutMs: 1000, MinRequestAmount: 1, StatIntervalMs: 10000, Threshold: t}}
		}
		cb.LoadRules(mk(3))
		for j := 0; j < 2; j++ {
			if e, b := sentinel.Entry(R); b == nil {
				sentinel.TraceError(e, errors.New("x"))
				e.Exit()
			}
		}
		clk.AddMs(20)
		if path == "whole-set" {
			cb.LoadRules(mk(5))
		} else {
			cb.LoadRulesOfResource(R, mk(5))
		}
		n := 0
		for n < 10 {
			e, b := sentinel.Entry(R)
			if b != nil {
				break
			}
			sentinel.TraceError(e, errors.New("x"))
			e.Exit()
			n++
		}
		if n != 3 {
			bad("breaker-error-count", fmt.Sprintf("threshold raised 3->5 (same statistic parameters) with 2 errors recorded: opened after %d further errors, expected 3", n))
		}
		cb.ClearRules()
	case 3: // three hot-parameter rules with the same statistic parameters (one per argument), the first unchanged, the
		// other two modified in place: each keeps the counters of ITS argument
		mk := func(t int64) []*hotspot.Rule {
			r := func(id string, idx int, thr int64) *hotspot.Rule {
				return &hotspot.Rule{ID: id, Resource: R, MetricType: hotspot.QPS, ControlBehavior: hotspot.Reject, ParamIndex: idx, Threshold: thr, DurationInSec: 1}
			}
			return []*hotspot.Rule{r("u", 0, 2), r("m1", 1, t), r("m2", 2, t)}
		}
		hotspot.LoadRules(mk(2))
		for j := 0; j < 2; j++ {
			if e, b := sentinel.Entry(R, sentinel.WithArgs(fmt.Sprint("a", j), "hot", fmt.Sprint("c", j))); b == nil {
				e.Exit()
			}
		}
		if path == "whole-set" {
			hotspot.LoadRules(mk(3))
		} else {
			hotspot.LoadRulesOfResource(R, mk(3))
		}
		n := 0
		for n < 10 {
			e, b := sentinel.Entry(R, sentinel.WithArgs(fmt.Sprint("x", n), "hot", fmt.Sprint("y", n)))
			if b != nil {
				break
			}
			e.Exit()
			n++
		}
		// (the statistic of a QPS rule is the bucket of REMAINING tokens: value "hot" has none left, and a kept bucket
		// stays empty until its refill time whatever the new threshold says)
		if n != 0 {
			bad("hotspot-three-rules-one-per-argument", fmt.Sprintf("thresholds of the rules on arguments 1 and 2 raised 2->3 (same statistic parameters) after value \"hot\" of argument 1 had used up its bucket: %d further admissions for it within the same duration, expected none (the rule on argument 1 keeps its buckets)", n))
		}
		hotspot.ClearRules()
	default: // hotspot concurrency 2 -> 3 with 2 live entries for the value
		mk := func(t int64) []*hotspot.Rule {
			return []*hotspot.Rule{{ID: "m", Resource: R, MetricType: hotspot.Concurrency, ParamIndex: 0, Threshold: t}}
		}
		hotspot.LoadRules(mk(2))
		var held []*base.SentinelEntry
		for j := 0; j < 2; j++ {
			if e, b := sentinel.Entry(R, sentinel.WithArgs("v")); b == nil {
				held = append(held, e)
			}
		}
		if path == "whole-set" {
			hotspot.LoadRules(mk(3))
		} else {
			hotspot.LoadRulesOfResource(R, mk(3))
		}
		n := 0
		for n < 10 {
			e, b := sentinel.Entry(R, sentinel.WithArgs("v"))
			if b != nil {
				break
			}
			held = append(held, e)
			n++
		}
		if n != 1 {
			bad("hotspot-concurrency", fmt.Sprintf("threshold raised 2->3 (same statistic parameters) with 2 live entries: %d further admissions, expected 1", n))
		}
		for _, e := range held {
			e.Exit()
		}
		hotspot.ClearRules()
	}
	run.Count("kept_statistics_checks", 1)
}

func main() {
	sx.Quiet()
	run = vk.Start("C14", "seq")
	defer run.Finish()
	run.Rule("case = (family flow-reject / flow-throttling / flow-warmup / breaker / hotspot-qps / hotspot-concurrency, parameters of the unchanged rule, edit applied to the other rules: identical list, other resource add/remove/modify, same resource add/remove/modify inert rule before/after, duplicate kept, reorder; load path whole-set or per-resource; reload position; generated traffic history). Twin runs at the same relative virtual instants (B shifted by one hour) must produce equal traces of (decision, block type, triggered rule id, requested sleep). Plus: a modified rule with unchanged statistic parameters keeps its window / error count / live counters. distinct = distinct (family, variant, edit, path, reload position, ops).")
	run.Assume("per-resource state is independent of the resource name and of absolute time modulo one hour", "inert rules never bind (threshold 1e9)", "sleeps are recorded, not slept")
	clk = vclock.New(1900000000000)
	n := run.N(1500, 15000)
	base0 := uint64(1900000800000)
	for i := 0; i < n; i++ {
		if run.Skip(i) {
			continue
		}
		rng := run.Rand(i)
		if i%8 == 7 {
			run.Begin(i, map[string]interface{}{"kept-statistics": i % 3})
			keptStats(i/8, rng)
			run.Distinct(vk.Hash("kept", i))
			continue
		}
		f := families[rng.Intn(len(families))]
		if os.Getenv("VERIF_C14_FAMILY") == "hotspot" && !strings.HasPrefix(f.name, "hotspot") {
			continue // (run for C05: the hot-parameter families and the kept-statistics cases only)
		}
		c := &caseDesc{Family: f.name, Variant: rng.Intn(12), Edit: edits[rng.Intn(len(edits))], Path: vk.PickS(rng, "whole-set", "per-resource")}
		// (the per-resource path cannot edit another resource's rules - except in the associated-rule family, where the
		// "other" resource is the referenced one and is loaded / cleared through its own per-resource calls)
		if c.Path == "per-resource" && f.name != "flow-associated" && (c.Edit == "other-resource-add" || c.Edit == "other-resource-remove" || c.Edit == "other-resource-modify") {
			c.Path = "whole-set"
		}
		if c.Edit == "stat-sharing-rule-modified-and-moved-before" && (f.name == "flow-throttling" || (f.name == "hotspot-qps" && c.Variant%2 == 1)) {
			// a throttling rule cannot be made inert (even at a threshold of 1e9 it asks for 1-2 ns waits) and has no statistic to share
			c.Edit = "reorder"
		}
		nops := f.nops(rng)
		for k := 0; k < nops; k++ {
			c.Ops = append(c.Ops, f.genOp(rng, k))
		}
		c.ReloadAt = 1 + rng.Intn(nops-1)
		run.Begin(i, c)
		if i < 3 {
			cc := *c
			if len(cc.Ops) > 12 {
				cc.Ops = cc.Ops[:12]
			}
			run.Sample(cc)
		}
		run.Guard("C14/panic", c, func() {
			t0 := base0 + uint64(i)*2*3600*1000 + uint64(rng.Intn(1000))
			a := exec(f, c, false, t0)
			b := exec(f, c, true, t0+3600*1000)
			if len(a) != len(b) {
				run.Violation("C14/trace-length", "twin runs produced traces of different length", c)
				return
			}
			// index of the first request at or after the reload
			for k := range a {
				if a[k] != b[k] {
					state := ""
					c.Note = fmt.Sprintf("request #%d: without reload %+v, with reload %+v", k, a[k], b[k])
					run.Violation("C14/"+f.name+":"+c.Edit+":"+c.Path+state, fmt.Sprintf("[%s variant %d, edit %q, %s path, reload before op %d] %s", f.name, c.Variant, c.Edit, c.Path, c.ReloadAt, c.Note), c)
					return
				}
			}
			blocks := 0
			for _, x := range a {
				if !x.Adm {
					blocks++
				}
			}
			if blocks > 0 && blocks < len(a) {
				run.Distinct(vk.Hash(c.Family, c.Variant, c.Edit, c.Path, c.ReloadAt, len(c.Ops), i))
			}
			run.Count("twin_requests", int64(len(a)))
		})
	}
}
