// C03 monitor: circuit breakers vs. the three-state reference machine (ref.CB)
// in lock-step on generated time-stamped histories through api.Entry / Exit.
package main

import (
	"errors"
	"fmt"
	"math/rand"
	"os"
	"strconv"

	sentinel "github.com/alibaba/sentinel-golang/api"
	"github.com/alibaba/sentinel-golang/core/base"
	cb "github.com/alibaba/sentinel-golang/core/circuitbreaker"

	"verif/ref"
	"verif/sx"
	"verif/vclock"
	"verif/vk"
)

type ev struct {
	K    string `json:"k"` // start | end | adv
	Dt   uint64 `json:"dt,omitempty"`
	Pick int    `json:"pick,omitempty"`
	Err  bool   `json:"err,omitempty"`
}

type caseDesc struct {
	Rules  []ref.CBRule `json:"rules"`
	T0     uint64       `json:"t0"`
	Evs    []ev         `json:"events"`
	FailAt int          `json:"fail_at,omitempty"`
	// PreProbe: the rules replace predecessors that differ from them only in the probe number (0 <-> 1, n -> n-1):
	// the machine runs with the probe number loaded last
	PreProbe bool `json:"preloaded_with_other_probe_number,omitempty"`
}

type lsn struct {
	log []ref.Transition
	at  []uint64 // virtual time of each reported transition
}

func (l *lsn) OnTransformToClosed(prev cb.State, rule cb.Rule) {
	l.log = append(l.log, ref.Transition{Rule: rule.Id, From: int(prev), To: ref.Closed})
	l.at = append(l.at, clk.Ms())
}
func (l *lsn) OnTransformToOpen(prev cb.State, rule cb.Rule, snapshot interface{}) {
	l.log = append(l.log, ref.Transition{Rule: rule.Id, From: int(prev), To: ref.Open})
	l.at = append(l.at, clk.Ms())
}
func (l *lsn) OnTransformToHalfOpen(prev cb.State, rule cb.Rule) {
	l.log = append(l.log, ref.Transition{Rule: rule.Id, From: int(prev), To: ref.HalfOpen})
	l.at = append(l.at, clk.Ms())
}

var run *vk.Run
var clk *vclock.Clock
var L = &lsn{}
var caseNo int

// genBoundary: one ratio breaker whose threshold is a decimal fraction a/b written as the user would write it (0.28,
// 0.07, ...); b requests complete inside one window, the a failing (or slow) ones last, so that the ratio reaches the
// threshold EXACTLY at the last completion - which must trip the breaker ("reaches the threshold")
func genBoundary(rng *rand.Rand) *caseDesc {
	pairs := [][2]int{{7, 25}, {7, 50}, {7, 100}, {14, 25}, {3, 10}, {7, 10}, {9, 10}, {35, 100}, {29, 100}, {57, 100}, {1, 10}, {1, 4}, {1, 2}, {3, 4}, {3, 5}, {11, 20}, {13, 20}, {1, 20}}
	pr := pairs[rng.Intn(len(pairs))]
	a, b := pr[0], pr[1]
	thr, _ := strconv.ParseFloat(fmt.Sprintf("%.2f", float64(a)/float64(b)), 64)
	r := ref.CBRule{Strategy: vk.PickI(rng, ref.SlowRatio, ref.ErrRatio), RetryMs: 1000, MinReq: uint64(vk.PickI(rng, 0, 1, b/2, b)), StatMs: 10000, Buckets: uint64(vk.PickI(rng, 0, 1)), Threshold: thr, MaxRt: 5}
	c := &caseDesc{Rules: []ref.CBRule{r}, T0: 1700000000000 + uint64(rng.Intn(100000))}
	c.T0 -= c.T0 % 10000 // the whole case lies in one 10 s window
	for i := 0; i < b; i++ {
		bad := i >= b-a
		c.Evs = append(c.Evs, ev{K: "start"})
		if bad && r.Strategy == ref.SlowRatio {
			c.Evs = append(c.Evs, ev{K: "adv", Dt: 10})
		}
		c.Evs = append(c.Evs, ev{K: "end", Err: bad && r.Strategy == ref.ErrRatio})
	}
	c.Evs = append(c.Evs, ev{K: "start"}, ev{K: "adv", Dt: 999}, ev{K: "start"}, ev{K: "adv", Dt: 1}, ev{K: "start"}, ev{K: "end"})
	return c
}

func genCase(rng *rand.Rand) *caseDesc {
	if rng.Intn(10) == 0 {
		return genBoundary(rng)
	}
	c := &caseDesc{}
	nb := 1
	if rng.Intn(3) == 0 {
		nb = 2 + rng.Intn(2)
	}
	maxRetry, maxStat := uint64(1), uint64(1)
	for i := 0; i < nb; i++ {
		r := ref.CBRule{Strategy: rng.Intn(3)}
		r.RetryMs = uint64(vk.PickI(rng, 1, 10, 100, 100, 1000, 5000))
		if rng.Intn(12) == 0 {
			// retry timeouts near the top of the uint32 range (49.7 days): the deadline arithmetic is 64-bit
			r.RetryMs = uint64(vk.PickI64(rng, 1<<31, 1<<32-1, 1<<32-2, 3000000000))
		}
		r.MinReq = uint64(vk.PickI(rng, 0, 1, 1, 2, 3, 5, 8))
		r.StatMs = uint64(vk.PickI(rng, 100, 1000, 1000, 2000, 10000))
		r.Buckets = uint64(vk.PickI(rng, 0, 1, 1, 2, 3, 4, 5, 10))
		r.ProbeNum = uint64(vk.PickI(rng, 0, 0, 0, 1, 2, 3))
		switch r.Strategy {
		case ref.SlowRatio:
			r.MaxRt = uint64(vk.PickI64(rng, 0, 5, 50, 50, 1<<32, 1<<62))
			r.Threshold = vk.PickF(rng, 0, 0.1, 0.25, 1.0/3, 0.5, 0.75, 1)
		case ref.ErrRatio:
			r.Threshold = vk.PickF(rng, 0, 0.1, 0.25, 1.0/3, 0.5, 0.75, 1)
		default:
			r.Threshold = float64(vk.PickI(rng, 0, 1, 1, 2, 3, 5))
		}
		if r.RetryMs > maxRetry {
			maxRetry = r.RetryMs
		}
		if r.StatMs > maxStat {
			maxStat = r.StatMs
		}
		c.Rules = append(c.Rules, r)
	}
	c.T0 = 1700000000000 + uint64(rng.Intn(100000))
	n := 30 + rng.Intn(120)
	errBias := rng.Float64()
	for i := 0; i < n; i++ {
		var e ev
		switch k := rng.Intn(10); {
		case k < 4:
			e.K = "start"
		case k < 7:
			e.K = "end"
			e.Pick = rng.Intn(1 << 20)
			e.Err = rng.Float64() < errBias
		default:
			e.K = "adv"
			r0 := c.Rules[rng.Intn(nb)]
			bl := r0.StatMs
			if r0.Buckets != 0 && r0.StatMs%r0.Buckets == 0 {
				bl = r0.StatMs / r0.Buckets
			}
			switch rng.Intn(9) {
			case 0:
				e.Dt = 1
			case 1:
				e.Dt = uint64(rng.Intn(60))
			case 2:
				e.Dt = r0.RetryMs
			case 3:
				if r0.RetryMs > 1 {
					e.Dt = r0.RetryMs - 1
				}
			case 4:
				e.Dt = bl
			case 5:
				e.Dt = r0.StatMs
			case 6:
				e.Dt = maxStat + maxRetry + 1
			case 7:
				e.Dt = r0.RetryMs + 1
			default:
				e.Dt = uint64(rng.Intn(int(bl) + 1))
			}
		}
		c.Evs = append(c.Evs, e)
	}
	return c
}

type liveReq struct {
	e     *base.SentinelEntry
	start uint64
}

func stName(s int) string { return [...]string{"Closed", "HalfOpen", "Open"}[s] }

func runCase(idx int, c *caseDesc) {
	caseNo++
	res := fmt.Sprintf("c03-%d", caseNo)
	clk.SetMs(c.T0)
	var rules []*cb.Rule
	var models []*ref.CB
	for i := range c.Rules {
		r := &c.Rules[i]
		r.ID = fmt.Sprintf("c%d.b%d", caseNo, i)
		rules = append(rules, &cb.Rule{Id: r.ID, Resource: res, Strategy: cb.Strategy(r.Strategy), RetryTimeoutMs: uint32(r.RetryMs),
			MinRequestAmount: r.MinReq, StatIntervalMs: uint32(r.StatMs), StatSlidingWindowBucketCount: uint32(r.Buckets),
			MaxAllowedRtMs: r.MaxRt, Threshold: r.Threshold, ProbeNum: r.ProbeNum})
		models = append(models, ref.NewCB(*r))
	}
	if c.PreProbe {
		var pre []*cb.Rule
		for _, r := range rules {
			x := *r
			if x.ProbeNum == 0 {
				x.ProbeNum = 1
			} else {
				x.ProbeNum--
			}
			pre = append(pre, &x)
		}
		// (not when a predecessor equals ANOTHER rule of the list in every field but the id: the manager then keeps that
		// predecessor's breaker - old rule object, old id - for the other rule, and the listeners hear the old id)
		twin := false
		for i, p := range pre {
			for j, r := range rules {
				a, b := *p, *r
				a.Id, b.Id = "", ""
				if i != j && a == b {
					twin = true
				}
			}
		}
		if !twin {
			cb.LoadRules(pre)
			run.Count("probe_number_reloads", 1)
		}
	}
	if _, err := cb.LoadRules(rules); err != nil {
		run.Violation("C03/load-error", err.Error(), c)
		return
	}
	defer cb.ClearRules()
	L.log = L.log[:0]
	var want []ref.Transition
	var lives []liveReq
	defer func() {
		for _, l := range lives {
			l.e.Exit()
		}
	}()
	strat := [...]string{"slow-ratio", "error-ratio", "error-count"}
	cls := func() string {
		if len(c.Rules) > 1 {
			return "multi-breaker"
		}
		return strat[c.Rules[0].Strategy]
	}
	cmpLog := func(i int, what string) bool {
		if len(L.log) != len(want) {
			c.FailAt = i
			run.Violation("C03/listener-log:"+cls(), fmt.Sprintf("event %d (%s) at t=%d: listener saw %d transitions %v, model %d %v", i, what, clk.Ms(), len(L.log), tail(L.log), len(want), tail(want)), c)
			return false
		}
		for j := range want {
			if L.log[j] != want[j] {
				c.FailAt = i
				run.Violation("C03/listener-log:"+cls(), fmt.Sprintf("event %d (%s) at t=%d: transition #%d is %s:%s->%s, model %s:%s->%s", i, what, clk.Ms(), j,
					L.log[j].Rule, stName(L.log[j].From), stName(L.log[j].To), want[j].Rule, stName(want[j].From), stName(want[j].To)), c)
				return false
			}
		}
		return true
	}
	sawBlock, sawTrans := false, map[string]bool{}
	for i, e := range c.Evs {
		switch e.K {
		case "adv":
			clk.AddMs(e.Dt)
		case "start":
			now := clk.Ms()
			en, be := sentinel.Entry(res)
			// model. One clock tick of tolerance at the deadline itself: "until the retry timeout has elapsed" is only
			// decidable to the resolution of the millisecond clock, so a request arriving exactly at opening + timeout
			// may still be rejected by that breaker (the model then treats it as arriving one tick earlier)
			blockedBy := -1
			var moved []int
			for bi, m := range models {
				nowM := now
				if m.State == ref.Open && m.NextRetry == now && now > 0 && be != nil && ruleID(be) == m.R.ID {
					nowM = now - 1
					run.Count("rejections_exactly_at_the_deadline_tolerated", 1)
				}
				pass, tr := m.TryPass(nowM, &want)
				if tr {
					moved = append(moved, bi)
				}
				if !pass {
					blockedBy = bi
					break
				}
			}
			if blockedBy >= 0 {
				for _, bi := range moved {
					models[bi].RollBack(&want)
				}
			}
			if (en == nil) == (be == nil) {
				c.FailAt = i
				run.Violation("C03/outcome:both-or-neither", "Entry returned both or neither", c)
				return
			}
			if be != nil {
				sawBlock = true
				if blockedBy < 0 {
					c.FailAt = i
					run.Violation("C03/decision:rejected-while-admitting:"+cls(), fmt.Sprintf("event %d at t=%d: rejected (%s by %v) but every breaker admits (model states %s)", i, now, be.BlockType(), ruleID(be), states(models)), c)
					return
				}
				if be.BlockType() != base.BlockTypeCircuitBreaking {
					c.FailAt = i
					run.Violation("C03/block-type", fmt.Sprintf("blocked with %s", be.BlockType()), c)
					return
				}
				if id := ruleID(be); id != models[blockedBy].R.ID {
					c.FailAt = i
					run.Violation("C03/triggered-rule:"+cls(), fmt.Sprintf("event %d: triggered rule %s, model %s", i, id, models[blockedBy].R.ID), c)
					return
				}
			} else {
				if blockedBy >= 0 {
					c.FailAt = i
					m := models[blockedBy]
					run.Violation("C03/decision:admitted-while-rejecting:"+cls(), fmt.Sprintf("event %d at t=%d: admitted but breaker %s is %s (retry at %d, probeNum %d)", i, now, m.R.ID, stName(m.State), m.NextRetry, m.R.ProbeNum), c)
					en.Exit()
					return
				}
				lives = append(lives, liveReq{en, now})
			}
			if !cmpLog(i, "start") {
				return
			}
		case "end":
			if len(lives) == 0 {
				continue
			}
			k := e.Pick % len(lives)
			l := lives[k]
			lives = append(lives[:k], lives[k+1:]...)
			now := clk.Ms()
			for _, m := range models {
				m.Complete(now, now-l.start, e.Err, &want)
			}
			if e.Err {
				sentinel.TraceError(l.e, errors.New("biz"))
			}
			l.e.Exit()
			if !cmpLog(i, "end") {
				return
			}
		}
	}
	for _, t := range want {
		sawTrans[fmt.Sprintf("%d>%d", t.From, t.To)] = true
	}
	run.Count("events", int64(len(c.Evs)))
	run.Count("transitions", int64(len(want)))
	for _, m := range models {
		if m.DontCare {
			run.Count("dont_care_ratio_near_threshold", 1)
		}
	}
	for k := range sawTrans {
		run.Count("cases_with_"+k, 1)
	}
	if sawBlock && len(want) >= 2 {
		key := ""
		for _, t := range want {
			key += fmt.Sprintf("%s:%d>%d,", t.Rule[len(t.Rule)-2:], t.From, t.To)
		}
		run.Distinct(vk.Hash(key, c.Rules))
	}
}

func tail(l []ref.Transition) []ref.Transition {
	if len(l) > 4 {
		return l[len(l)-4:]
	}
	return l
}

func states(ms []*ref.CB) string {
	s := ""
	for _, m := range ms {
		s += stName(m.State) + " "
	}
	return s
}

func ruleID(be *base.BlockError) string {
	if r, ok := be.TriggeredRule().(*cb.Rule); ok && r != nil {
		return r.Id
	}
	return fmt.Sprintf("<%T>", be.TriggeredRule())
}

func main() {
	sx.Quiet()
	run = vk.Start("C03", "seq")
	defer run.Finish()
	run.Rule("case = (1-3 breakers: strategy, threshold incl. 0 and 1, min-request 0-8, retry 1-5000ms, stat interval 100-10000ms with 0/1/dividing/non-dividing bucket counts, probe number 0-3, every fifth case loaded over predecessors that differ in the probe number only; 30-150 events start/end(err)/advance with overlapping requests and hostile deltas); every decision, triggered rule and the cumulative listener log are compared with ref.CB after every event; non-trivial = at least one block and two transitions; distinct by (transition path, rules). Plus a family where the threshold of an OPEN breaker's rule is modified by a reload: no Open->HalfOpen is reported earlier than one retry timeout after the latest reported opening.")
	run.Assume("sequential callers", "response time = completion time - entry creation time (virtual ms)", "error-count thresholds are whole numbers", "ratios inside (1e-9,1e-7) of the threshold are don't-care (counted)")
	clk = vclock.New(1700000000000)
	cb.RegisterStateChangeListeners(L)
	n := run.N(500, 20000)
	for i := 0; i < n; i++ {
		if os.Getenv("VERIF_C03_FAMILY") == "modify" {
			break // (run for C12: only the family below)
		}
		if run.Skip(i) {
			continue
		}
		c := genCase(run.Rand(i))
		c.PreProbe = i%5 == 4
		run.Begin(i, c)
		if i < 2 {
			cc := *c
			if len(cc.Evs) > 14 {
				cc.Evs = cc.Evs[:14]
			}
			run.Sample(cc)
		}
		run.Guard("C03/panic", c, func() { runCase(i, c) })
	}
	for i := n; i < n+n/5; i++ {
		if run.Skip(i) {
			continue
		}
		c := genModify(run.Rand(i))
		run.Begin(i, c)
		run.Guard("C03/panic", c, func() { runModify(i, c) })
	}
}

// ---- a rule is modified (threshold only) while its breaker is open: whatever state the modified rule's breaker starts
// in, every reported Open->HalfOpen transition comes at least one retry timeout after the latest reported opening of
// that rule, and nothing is admitted by a breaker that has reported Open and not yet HalfOpen/Closed.
type modCase struct {
	Strategy int      `json:"strategy"`
	Retry    uint32   `json:"retry_ms"`
	Probe    uint64   `json:"probe_num"`
	Path     string   `json:"path"`
	Gap      uint64   `json:"reload_ms_after_opening"`
	Steps    []uint64 `json:"advance_before_request_ms"`
	Fail     []bool   `json:"request_fails"`
	Note     string   `json:"note,omitempty"`
}

func genModify(rng *rand.Rand) *modCase {
	c := &modCase{Strategy: rng.Intn(3), Retry: vk.PickU32(rng, 200, 1000, 3000), Probe: uint64(vk.PickI(rng, 0, 0, 1, 2)), Path: vk.PickS(rng, "whole-set", "per-resource")}
	c.Gap = uint64(vk.PickI64(rng, 0, 20, int64(c.Retry)/2, int64(c.Retry)-1))
	for k, n := 0, 3+rng.Intn(6); k < n; k++ {
		c.Steps = append(c.Steps, uint64(vk.PickI64(rng, 0, 20, 100, int64(c.Retry)/3, int64(c.Retry), int64(c.Retry)+1)))
		c.Fail = append(c.Fail, rng.Intn(2) == 0)
	}
	return c
}

func runModify(idx int, c *modCase) {
	caseNo++
	res := fmt.Sprintf("c03-m-%d", caseNo)
	id := res + ".b"
	clk.SetMs(1700000000000 + uint64(caseNo)*100000)
	mk := func(thr float64) []*cb.Rule {
		r := &cb.Rule{Id: id, Resource: res, Strategy: cb.Strategy(c.Strategy), RetryTimeoutMs: c.Retry, MinRequestAmount: 1, StatIntervalMs: 10000, Threshold: thr, ProbeNum: c.Probe, MaxAllowedRtMs: 10}
		if r.Strategy != cb.ErrorCount {
			r.Threshold = thr / 4 // ratios 0.25 -> 0.5
		}
		return []*cb.Rule{r}
	}
	L.log, L.at = L.log[:0], L.at[:0]
	cb.LoadRulesOfResource(res, mk(1))
	defer cb.ClearRulesOfResource(res)
	req := func(fail bool) bool {
		e, b := sentinel.Entry(res)
		if b != nil {
			return false
		}
		if fail {
			if c.Strategy == int(cb.SlowRequestRatio) {
				clk.AddMs(50)
			} else {
				sentinel.TraceError(e, errors.New("x"))
			}
		}
		e.Exit()
		return true
	}
	req(true)
	if len(L.log) != 1 || L.log[0].To != ref.Open {
		run.Count("modify_setup_not_open", 1)
		return
	}
	lastOpen, reported := L.at[0], ref.Open
	seen := 1
	clk.AddMs(c.Gap)
	if c.Path == "whole-set" {
		cb.LoadRules(mk(2))
	} else {
		cb.LoadRulesOfResource(res, mk(2))
	}
	for k, dt := range c.Steps {
		clk.AddMs(dt)
		req(c.Fail[k])
		for ; seen < len(L.log); seen++ {
			tr, at := L.log[seen], L.at[seen]
			if tr.Rule != id {
				continue
			}
			if tr.To == ref.Open {
				lastOpen = at
			}
			if tr.From == ref.Open && tr.To == ref.HalfOpen && at < lastOpen+uint64(c.Retry) {
				c.Note = fmt.Sprintf("request %d", k)
				run.Violation("C03/modified-while-open:half-open-before-retry-timeout", fmt.Sprintf("[strategy %d retry %dms, threshold modified %d ms after the breaker opened, %s path] Open->HalfOpen reported at +%d ms after the latest reported opening", c.Strategy, c.Retry, c.Gap, c.Path, at-lastOpen), c)
				return
			}
			reported = tr.To
		}
	}
	_ = reported
	run.Count("modified_while_open_cases", 1)
	run.Distinct(vk.Hash("modify", c.Strategy, c.Retry, c.Probe, c.Path, c.Gap, len(c.Steps)))
}
