// C04 sequential monitor: isolation (concurrency) rules vs. a 64-bit semaphore model.
package main

import (
	"fmt"
	"math/rand"

	sentinel "github.com/alibaba/sentinel-golang/api"
	"github.com/alibaba/sentinel-golang/core/base"
	"github.com/alibaba/sentinel-golang/core/isolation"
	"github.com/alibaba/sentinel-golang/core/stat"

	"verif/sx"
	"verif/vclock"
	"verif/vk"
)

type op struct {
	Kind  string `json:"k"` // enter | exit | enter-faulty (a rule-check slot placed before the isolation slot panics: the request is passed, uncounted)
	Res   int    `json:"r"`
	Batch uint32 `json:"b,omitempty"`
	Pick  int    `json:"pick,omitempty"` // which live entry to exit (index into the live list modulo len)
}

type caseDesc struct {
	Thr    [][]uint32 `json:"thresholds"` // per resource, per rule
	Ops    []op       `json:"ops"`
	FailAt int        `json:"fail_at,omitempty"`
}

var run *vk.Run
var clk *vclock.Clock
var caseNo int

func genCase(rng *rand.Rand) *caseDesc {
	c := &caseDesc{}
	nres := 1 + rng.Intn(3)
	for r := 0; r < nres; r++ {
		var ts []uint32
		for i, n := 0, rng.Intn(4); i < n; i++ {
			ts = append(ts, vk.PickU32(rng, 1, 1, 2, 2, 3, 4, 5, 8, 1<<31, 0xFFFFFFFF)) // threshold 0 is invalid by the module's own check (C13 covers invalid rules)
		}
		c.Thr = append(c.Thr, ts)
	}
	n := 20 + rng.Intn(100)
	for i := 0; i < n; i++ {
		o := op{Res: rng.Intn(nres)}
		if rng.Intn(14) == 0 {
			o.Kind = "enter-faulty"
		} else if rng.Intn(5) < 3 {
			o.Kind = "enter"
			N := uint32(2)
			if ts := c.Thr[o.Res]; len(ts) > 0 {
				N = ts[rng.Intn(len(ts))]
			}
			o.Batch = vk.PickU32(rng, 1, 1, 1, 1, 1, 0, 2, N, N-1, N+1, 1<<31, 0xFFFFFFFF, 0xFFFFFFFE)
		} else {
			o.Kind = "exit"
			o.Pick = rng.Intn(1 << 20)
		}
		c.Ops = append(c.Ops, o)
	}
	return c
}

type live struct {
	e       *base.SentinelEntry
	res     int
	faulty  bool
	counted bool // a faulty request the library keeps in its in-flight figure
}

// boomSlot panics for requests carrying the argument "boom" (it runs before the isolation slot)
type boomSlot struct{}

func (boomSlot) Order() uint32 { return 0 }
func (boomSlot) Check(ctx *base.EntryContext) *base.TokenResult {
	if len(ctx.Input.Args) > 0 && ctx.Input.Args[0] == "boom" {
		panic("boom")
	}
	return nil
}

var faultyChain *base.SlotChain

func runCase(idx int, c *caseDesc) {
	caseNo++
	names := make([]string, len(c.Thr))
	var rules []*isolation.Rule
	for r, ts := range c.Thr {
		names[r] = fmt.Sprintf("c04-%d-%d", caseNo, r)
		for i, t := range ts {
			rules = append(rules, &isolation.Rule{ID: fmt.Sprintf("r%d.%d", r, i), Resource: names[r], MetricType: isolation.Concurrency, Threshold: t})
		}
	}
	if len(rules) > 0 {
		if _, err := isolation.LoadRules(rules); err != nil {
			run.Violation("C04/load-error", err.Error(), c)
			return
		}
	}
	defer isolation.ClearRules()
	inflight := make([]uint64, len(c.Thr))
	var lives []live
	sawP, sawB := false, false
	trace := make([]byte, 0, len(c.Ops))
	defer func() {
		for _, l := range lives {
			l.e.Exit()
		}
	}()
	for i, o := range c.Ops {
		clk.AddMs(uint64(i % 7))
		if i%11 == 10 {
			// the wall clock is stepped back a little (NTP correction) while entries are in flight: decisions and the
			// in-flight figure do not depend on time
			clk.SetMs(clk.Ms() - uint64(1+i%40))
		}
		switch o.Kind {
		case "exit":
			if len(lives) == 0 {
				continue
			}
			k := o.Pick % len(lives)
			l := lives[k]
			lives = append(lives[:k], lives[k+1:]...)
			l.e.Exit()
			if !l.faulty || l.counted {
				inflight[l.res]--
			}
			if got := stat.GetResourceNode(names[l.res]).CurrentConcurrency(); int64(got) != int64(inflight[l.res]) {
				c.FailAt = i
				run.Violation("C04/gauge-after-exit", fmt.Sprintf("op %d: concurrency gauge %d after exit, model %d", i, got, inflight[l.res]), c)
				return
			}
		case "enter-faulty":
			// rule evaluation panics inside the chain: the request is passed without being counted, and its exit
			// releases nothing - the in-flight figure (and so the capacity seen by everybody else) is unchanged
			en, be := sentinel.Entry(names[o.Res], sentinel.WithSlotChain(faultyChain), sentinel.WithArgs("boom"))
			if en == nil || be != nil {
				c.FailAt = i
				run.Violation("C04/faulty-request-not-passed", fmt.Sprintf("op %d: a request whose rule evaluation panicked was not passed: %v", i, be), c)
				return
			}
			counted := false
			if n := stat.GetResourceNode(names[o.Res]); n != nil {
				// (the library may treat such a request as admitted-and-in-flight - it then occupies one unit until its
				// exit like any other entry - or leave it out of the books altogether; what it must not do is half of it)
				switch got := n.CurrentConcurrency(); int64(got) {
				case int64(inflight[o.Res]):
				case int64(inflight[o.Res]) + 1:
					counted = true
					inflight[o.Res]++
					run.Count("faulty_requests_counted_as_in_flight", 1)
				default:
					c.FailAt = i
					run.Violation("C04/gauge-after-faulty-request", fmt.Sprintf("op %d: gauge %d after a request passed because of an internal panic, model %d", i, got, inflight[o.Res]), c)
					return
				}
			}
			lives = append(lives, live{e: en, res: o.Res, faulty: true, counted: counted})
		case "enter":
			// expected: first rule (list order) with inflight + b > N blocks
			blockIdx := -1
			for ri, t := range c.Thr[o.Res] {
				if inflight[o.Res]+uint64(o.Batch) > uint64(t) {
					blockIdx = ri
					break
				}
			}
			en, be := sentinel.Entry(names[o.Res], sentinel.WithBatchCount(o.Batch))
			if (en == nil) == (be == nil) {
				c.FailAt = i
				run.Violation("C04/outcome:both-or-neither", "Entry returned both or neither of (entry, block error)", c)
				return
			}
			cls := "general"
			if inflight[o.Res]+uint64(o.Batch) > 0xFFFFFFFF {
				cls = "uint32-wrap(inflight+batch)"
			}
			if be != nil {
				sawB = true
				trace = append(trace, 'b')
				if blockIdx < 0 {
					c.FailAt = i
					run.Violation("C04/admit-iff:spurious-rejection:"+cls, fmt.Sprintf("op %d: rejected (%s) with in-flight %d batch %d thresholds %v", i, be.BlockType(), inflight[o.Res], o.Batch, c.Thr[o.Res]), c)
					return
				}
				if be.BlockType() != base.BlockTypeIsolation {
					c.FailAt = i
					run.Violation("C04/block-type", fmt.Sprintf("op %d: blocked with %s", i, be.BlockType()), c)
					return
				}
				// the rule blamed must be a violated one (which of several violated rules is reported, and the value
				// reported with it, are not part of the property: counted only)
				want := fmt.Sprintf("r%d.%d", o.Res, blockIdx)
				blamedOK := false
				r, ok := be.TriggeredRule().(*isolation.Rule)
				if ok && r != nil {
					for ri, t := range c.Thr[o.Res] {
						if r.ID == fmt.Sprintf("r%d.%d", o.Res, ri) && inflight[o.Res]+uint64(o.Batch) > uint64(t) {
							blamedOK = true
						}
					}
				}
				if !blamedOK {
					c.FailAt = i
					run.Violation("C04/triggered-rule:"+cls, fmt.Sprintf("op %d: rejected in the name of rule %v, which is not violated (first violated rule: %s)", i, be.TriggeredRule(), want), c)
					return
				}
				if r.ID != want {
					run.Count("blamed_rule_is_not_the_first_violated_one", 1)
				}
				if v, ok := be.TriggeredValue().(uint32); !ok || uint64(v) != inflight[o.Res] {
					run.Count("triggered_value_differs_from_in_flight_count", 1)
				}
				// a rejected request must not occupy capacity
				if got := stat.GetResourceNode(names[o.Res]).CurrentConcurrency(); int64(got) != int64(inflight[o.Res]) {
					c.FailAt = i
					run.Violation("C04/rejected-occupies-capacity", fmt.Sprintf("op %d: gauge %d after a rejection, model %d", i, got, inflight[o.Res]), c)
					return
				}
			} else {
				sawP = true
				trace = append(trace, 'p')
				if blockIdx >= 0 {
					c.FailAt = i
					run.Violation("C04/admit-iff:over-admission:"+cls, fmt.Sprintf("op %d: admitted with in-flight %d + batch %d > threshold %d (rule %d)", i, inflight[o.Res], o.Batch, c.Thr[o.Res][blockIdx], blockIdx), c)
					en.Exit()
					return
				}
				inflight[o.Res]++
				lives = append(lives, live{e: en, res: o.Res})
			}
		}
	}
	run.Count("ops", int64(len(c.Ops)))
	if sawP && sawB {
		run.Distinct(vk.Hash(string(trace), c.Thr))
	}
}

func main() {
	sx.Quiet()
	run = vk.Start("C04", "seq")
	defer run.Finish()
	run.Rule("case = (1-3 resources each with 0-3 isolation rules, thresholds incl. 0, 2^31, 2^32-1; 20-120 enter/exit ops (some entries passed because a rule-check slot panicked: uncounted), random exit order, occasional backward clock steps, batches from {0,1,2,N-1,N,N+1,2^31,2^32-1}); every decision and the gauge are compared (the rule blamed for a rejection must be a violated one) with a 64-bit semaphore model; non-trivial = trace has a pass and a block; distinct by (trace, thresholds).")
	run.Assume("sequential callers (GOMAXPROCS=1); the k-concurrent clause is decided by the coop engine")
	clk = vclock.New(1700000000000)
	faultyChain = sentinel.BuildDefaultSlotChain()
	faultyChain.AddRuleCheckSlot(boomSlot{})
	n := run.N(500, 20000)
	for i := 0; i < n; i++ {
		if run.Skip(i) {
			continue
		}
		c := genCase(run.Rand(i))
		run.Begin(i, c)
		if i < 2 {
			cc := *c
			if len(cc.Ops) > 12 {
				cc.Ops = cc.Ops[:12]
			}
			run.Sample(cc)
		}
		run.Guard("C04/panic", c, func() { runCase(i, c) })
	}
	// a resource first seen after more than 10000 others (the library only warns about that many resources): its rule
	// caps the in-flight entries all the same
	if i := n; !run.Skip(i) {
		d := map[string]interface{}{"family": "many-resources", "resources_before": 10050, "threshold": 2}
		run.Begin(i, d)
		run.Guard("C04/panic", d, func() { manyResources(d) })
	}
}

func manyResources(d map[string]interface{}) {
	for k := 0; k < 10050; k++ {
		if e, b := sentinel.Entry(fmt.Sprintf("c04-many-%d", k)); b == nil {
			e.Exit()
		}
	}
	res := "c04-many-late"
	isolation.LoadRulesOfResource(res, []*isolation.Rule{{Resource: res, MetricType: isolation.Concurrency, Threshold: 2}})
	defer isolation.ClearRulesOfResource(res)
	defer stat.ResetResourceNodeMap()
	var held []*base.SentinelEntry
	for k := 0; k < 5; k++ {
		e, b := sentinel.Entry(res)
		if b == nil {
			held = append(held, e)
		}
		if want := k < 2; (b == nil) != want {
			run.Violation("C04/many-resources:decision", fmt.Sprintf("threshold 2 on a resource first seen after 10050 others: request %d with %d entries in flight admitted=%v, expected %v", k, min(k, 2), b == nil, want), d)
			break
		}
	}
	for _, e := range held {
		e.Exit()
	}
	if e, b := sentinel.Entry(res); b != nil {
		run.Violation("C04/many-resources:capacity-not-freed", "all entries exited, the next request was rejected", d)
	} else {
		e.Exit()
	}
	run.Count("many_resources_cases", 1)
	run.Distinct(vk.Hash("many-resources"))
}
