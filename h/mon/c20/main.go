// C20 monitor: outlier ejection. One reference breaker (ref.CB) per node is
// stepped with the same completions; FilterNodes / HalfOpenNodes of every request
// are compared with it. A second engine (VERIF_MODE=recycle) exercises the
// recycler's real timers with a control node.
package main

import (
	"errors"
	"fmt"
	"math"
	"math/rand"
	"os"
	"runtime"
	"sort"
	"strings"
	"sync/atomic"
	"time"

	sentinel "github.com/alibaba/sentinel-golang/api"
	"github.com/alibaba/sentinel-golang/core/base"
	cb "github.com/alibaba/sentinel-golang/core/circuitbreaker"
	"github.com/alibaba/sentinel-golang/core/outlier"

	"verif/ref"
	"verif/sx"
	"verif/vclock"
	"verif/vk"
)

type step struct {
	K    string  `json:"k"` // req | adv | reload-pct
	Node int     `json:"node,omitempty"`
	Err  bool    `json:"err,omitempty"`
	Dt   uint64  `json:"dt,omitempty"`
	Pct  float64 `json:"pct,omitempty"`
}

type caseDesc struct {
	N      int     `json:"nodes"`
	Pct    float64 `json:"max_ejection_percent"`
	Active bool    `json:"active_recovery"`
	Retry  uint32  `json:"retry_ms"`
	Probe  uint64  `json:"probe_num"`
	Steps  []step  `json:"steps"`
	FailAt int     `json:"fail_at,omitempty"`
	Note   string  `json:"note,omitempty"`
}

var run *vk.Run
var clk *vclock.Clock
var chain *base.SlotChain
var caseNo int

func genCase(rng *rand.Rand) *caseDesc {
	c := &caseDesc{N: 1 + rng.Intn(20), Pct: vk.PickF(rng, 0, 0.01, 0.07, 0.1, 0.25, 0.29, 0.3, 0.34, 0.5, 0.57, 0.7, 0.9, 0.99, 1, 0.666, 0.335, 0.125, 0.995, 0.005, 0.1666), Active: rng.Intn(3) == 0,
		Retry: vk.PickU32(rng, 50, 200, 1000), Probe: uint64(vk.PickI(rng, 0, 0, 1))}
	if run.Thorough() && rng.Intn(3) == 0 {
		c.N = 1 + rng.Intn(40)
		c.Pct = float64(rng.Intn(101)) / 100
		if rng.Intn(2) == 0 {
			c.Pct = float64(rng.Intn(1001)) / 1000
		}
	}
	bad := map[int]bool{}
	for i := 0; i < c.N; i++ {
		if rng.Intn(2) == 0 {
			bad[i] = true
		}
	}
	pcts := []float64{0, 0.07, 0.25, 0.29, 0.5, 0.57, 0.9, 1, 0.666, 0.335}
	for i, n := 0, 40+rng.Intn(160); i < n; i++ {
		if rng.Intn(40) == 0 {
			// the rule is loaded again with only the ejection percentage changed
			c.Steps = append(c.Steps, step{K: "reload-pct", Pct: pcts[rng.Intn(len(pcts))]})
			continue
		}
		if rng.Intn(6) == 0 {
			c.Steps = append(c.Steps, step{K: "adv", Dt: []uint64{1, 10, uint64(c.Retry) - 1, uint64(c.Retry), uint64(c.Retry) + 1, 3 * uint64(c.Retry), 12000}[rng.Intn(7)]})
			continue
		}
		nd := rng.Intn(c.N)
		e := bad[nd] && rng.Intn(5) != 0
		if !bad[nd] && rng.Intn(10) == 0 {
			e = true
		}
		c.Steps = append(c.Steps, step{K: "req", Node: nd, Err: e})
	}
	return c
}

func addr(i int) string { return fmt.Sprintf("10.1.0.%d:80", i) }

func runCase(idx int, c *caseDesc) {
	caseNo++
	res := fmt.Sprintf("c20-%d", caseNo)
	var over int32
	rule := &outlier.Rule{Rule: &cb.Rule{Id: res, Resource: res, Strategy: cb.ErrorCount, RetryTimeoutMs: c.Retry, MinRequestAmount: 1, StatIntervalMs: 10000, Threshold: 2, ProbeNum: c.Probe},
		MaxEjectionPercent: c.Pct, EnableActiveRecovery: c.Active, RecoveryIntervalMs: 4000, RecycleIntervalS: 0, // (both are multiplied in uint32 by the library: larger values wrap around)
		// (the active check answers "still down" for the length of the case and "up" afterwards: a check that never
		// succeeds is re-armed by the library for ever, and thousands of finished cases would keep their timers firing)
		RecoveryCheckFunc: func(string) bool { return atomic.LoadInt32(&over) == 1 }}
	if _, err := outlier.LoadRuleOfResource(res, rule); err != nil {
		run.Violation("C20/load-error", err.Error(), c)
		return
	}
	defer atomic.StoreInt32(&over, 1)
	defer outlier.ClearRuleOfResource(res)
	clk.AddMs(100000)
	nodes := map[string]*ref.CB{}
	var dummy []ref.Transition
	fail := func(i int, clause, msg string) {
		c.FailAt = i
		c.Note = msg
		run.Violation("C20/"+clause, fmt.Sprintf("step %d at t=%d (%d known nodes, max ejection %v, active recovery %v): %s", i, clk.Ms(), len(nodes), c.Pct, c.Active, msg), c)
	}
	sawFilter := 0
	pct := c.Pct
	for i, st := range c.Steps {
		if st.K == "adv" {
			clk.AddMs(st.Dt)
			continue
		}
		if st.K == "reload-pct" {
			r2 := *rule
			r2.Rule = &cb.Rule{}
			*r2.Rule = *rule.Rule
			r2.MaxEjectionPercent = st.Pct
			if _, err := outlier.LoadRuleOfResource(res, &r2); err != nil {
				fail(i, "load-error", err.Error())
				return
			}
			pct = st.Pct
			run.Count("percentage_reloads", 1)
			continue
		}
		now := clk.Ms()
		// model: every known node's breaker is asked
		rejecting := map[string]bool{}
		probing := map[string]bool{}
		for a, m := range nodes {
			pass, _ := m.TryPass(now, &dummy)
			if !pass {
				rejecting[a] = true
			} else if m.State == ref.HalfOpen {
				probing[a] = true
			}
		}
		n := len(nodes)
		e, b := sentinel.Entry(res, sentinel.WithSlotChain(chain))
		if b != nil || e == nil {
			fail(i, "request-blocked", fmt.Sprintf("the outlier slots blocked a request: %v", b))
			return
		}
		filter := append([]string(nil), e.Context().FilterNodes()...)
		half := append([]string(nil), e.Context().HalfOpenNodes()...)
		sort.Strings(filter)
		sort.Strings(half)
		seen := map[string]bool{}
		for _, f := range filter {
			if seen[f] {
				fail(i, "filter:duplicate-node", fmt.Sprintf("node %s reported twice", f))
				e.Exit()
				return
			}
			seen[f] = true
			if !rejecting[f] {
				st := "unknown node"
				if m := nodes[f]; m != nil {
					st = []string{"Closed", "HalfOpen(admitting)", "Open"}[m.State]
				}
				fail(i, "filter:node-whose-breaker-admits", fmt.Sprintf("FilterNodes() contains %s whose breaker admits traffic (%s)", f, st))
				e.Exit()
				return
			}
		}
		limit := int(math.Floor(pct*float64(n) + 1e-9))
		if len(filter) > limit {
			fail(i, "filter:exceeds-max-ejection", fmt.Sprintf("FilterNodes() has %d nodes %v, allowed floor(%v x %d) = %d", len(filter), filter, pct, n, limit))
			e.Exit()
			return
		}
		want := limit
		if len(rejecting) < want {
			want = len(rejecting)
		}
		if len(filter) < want {
			run.Count("requests_with_fewer_filtered_than_allowed(float-truncation)", 1)
			if len(filter) < want-1 {
				fail(i, "filter:far-fewer-than-allowed", fmt.Sprintf("FilterNodes() has %d nodes although %d reject and %d may be ejected", len(filter), len(rejecting), limit))
				e.Exit()
				return
			}
		}
		if len(filter) > 0 {
			sawFilter++
		}
		// half-open: exactly the passively probed nodes (none with active recovery)
		var wantHalf []string
		if !c.Active {
			for a := range probing {
				wantHalf = append(wantHalf, a)
			}
		}
		sort.Strings(wantHalf)
		if strings.Join(half, ",") != strings.Join(wantHalf, ",") {
			fail(i, "half-open-nodes", fmt.Sprintf("HalfOpenNodes() = %v, passively probed nodes per the reference breakers = %v", half, wantHalf))
			e.Exit()
			return
		}
		// the request goes to its node and completes
		a := addr(st.Node)
		sentinel.TraceCallee(e, a)
		if st.Err {
			sentinel.TraceError(e, errors.New("biz"))
		}
		e.Exit()
		m := nodes[a]
		if m == nil {
			m = ref.NewCB(ref.CBRule{ID: a, Strategy: ref.ErrCount, RetryMs: uint64(c.Retry), MinReq: 1, StatMs: 10000, Buckets: 0, Threshold: 2, ProbeNum: c.Probe})
			nodes[a] = m
		}
		m.Complete(now, 0, st.Err, &dummy)
		run.Count("requests", 1)
	}
	if sawFilter > 0 {
		run.Distinct(vk.Hash(c.N, c.Pct, c.Active, c.Retry, c.Probe, sawFilter, len(c.Steps)))
	}
}

// ------------------------------------------------------------------ recycler (real timers)

// settle lets the library's background consumer of recycle tasks run: it is a goroutine of this process that became
// runnable when the task was sent, so yielding the processor to it is what matters, not wall-clock time
func settle() {
	for k := 0; k < 2000; k++ {
		runtime.Gosched()
	}
	time.Sleep(50 * time.Millisecond)
	for k := 0; k < 2000; k++ {
		runtime.Gosched()
	}
}

func recycleScenario(i int) {
	caseNo++
	res := fmt.Sprintf("c20r-%d", caseNo)
	rule := &outlier.Rule{Rule: &cb.Rule{Id: res, Resource: res, Strategy: cb.ErrorCount, RetryTimeoutMs: 50, MinRequestAmount: 1, StatIntervalMs: 10000, Threshold: 1},
		MaxEjectionPercent: 1, RecycleIntervalS: 1}
	outlier.LoadRuleOfResource(res, rule)
	defer outlier.ClearRuleOfResource(res)
	call := func(a string, fail bool) (filter []string) {
		e, _ := sentinel.Entry(res, sentinel.WithSlotChain(chain))
		if e == nil {
			return nil
		}
		filter = append(filter, e.Context().FilterNodes()...)
		if os.Getenv("VERIF_DEBUG") != "" {
			fmt.Fprintf(os.Stderr, "  call(%q,fail=%v) t=%d filter=%v half=%v\n", a, fail, clk.Ms()%100000, filter, e.Context().HalfOpenNodes())
		}
		if a != "" {
			sentinel.TraceCallee(e, a)
			if fail {
				sentinel.TraceError(e, errors.New("x"))
			}
		}
		e.Exit()
		return
	}
	control, healed := "10.9.0.1:80", "10.9.0.2:80"
	// two healthy bystanders keep the pool large enough for the verdict below: the property only bounds the filter
	// from above, and an implementation may refuse to filter out the last known nodes
	call("10.9.0.3:80", false)
	call("10.9.0.4:80", false)
	// both nodes trip; both are then seen as outliers by the next request (which schedules their recycling)
	call(control, true)
	call(healed, true)
	call("", false)
	// the healed node completes a request successfully (after its retry timeout)
	// (real pause: the recycle tasks queued by the requests above are consumed by a background goroutine; in real
	// deployments at least the retry timeout lies between an ejection report and a successful probe, here virtual
	// time would compress that gap to microseconds and the "recovered" mark would race with the task consumer)
	settle()
	if i%4 >= 2 {
		// the rule is reloaded with another recycle interval while the two nodes wait for their recycling: whichever
		// interval governs them from now on, a node that completes a request successfully must not be recycled
		r2 := *rule
		r2.RecycleIntervalS = 3
		outlier.LoadRuleOfResource(res, &r2)
		run.Count("recycler_scenarios_with_interval_reload", 1)
	}
	clk.AddMs(100)
	call(healed, false)
	call(healed, false)
	flapping := i%2 == 1
	if flapping {
		// the recovered node fails again and is reported as an outlier a second time within the same recycle interval
		clk.AddMs(100)
		call(healed, true)
		call("", false)
		settle()
	}
	// wait (real time) until the control node has been recycled: it no longer shows up as an outlier
	gone := false
	for k := 0; k < 600 && !gone; k++ { // up to 30 s (normally ~1 s); only the inconclusive verdict depends on it
		time.Sleep(50 * time.Millisecond)
		clk.AddMs(1)
		f := call("", false)
		if os.Getenv("VERIF_DEBUG") != "" {
			fmt.Fprintf(os.Stderr, "  poll %d t=%d filter=%v\n", k, clk.Ms()%100000, f)
		}
		gone = true
		for _, x := range f {
			if x == control {
				gone = false
			}
		}
	}
	if !gone {
		run.Inconclusive("recycler scenario: the control node was not recycled within 30 s (real timer late?)")
		return
	}
	// the healed node must still be known: make it fail again and it must be reported immediately
	// (a recycled node would first have to be re-created by a completion)
	call("10.9.0.3:80", false)
	call("10.9.0.4:80", false)
	if !flapping {
		clk.AddMs(100)
		call(healed, true)
	}
	f := call("", false)
	if os.Getenv("VERIF_DEBUG") != "" {
		fmt.Fprintf(os.Stderr, "scenario %d flapping=%v final filter=%v\n", i, flapping, f)
	}
	found := false
	for _, x := range f {
		if x == healed {
			found = true
		}
	}
	if !found {
		cls := ""
		if flapping {
			cls = ":flapping-node"
		}
		run.Violation("C20/recycler:recovered-node-recycled"+cls, fmt.Sprintf("scenario %d (flapping=%v): node %s completed requests successfully after being an outlier but its breaker was gone after the recycle interval (its failure is not reported: filter=%v)", i, flapping, healed, f), map[string]interface{}{"scenario": i, "flapping": flapping})
	}
	run.Count("recycler_scenarios", 1)
	run.Distinct(vk.Hash("recycle", i))
}

func main() {
	sx.Quiet()
	clk = vclock.New(1900000000000)
	chain = sentinel.BuildDefaultSlotChain()
	chain.AddRuleCheckSlot(outlier.DefaultSlot)
	chain.AddStatSlot(outlier.DefaultMetricStatSlot)
	if os.Getenv("VERIF_MODE") == "recycle" {
		run = vk.Start("C20", "recycle")
		defer run.Finish()
		run.Rule("scenario = two healthy bystander nodes; two nodes trip; one completes requests successfully afterwards (odd scenarios: and then fails and is reported again within the same interval), the other (control) never does; in half of the scenarios the rule is reloaded with another recycle interval in between; once the control node has been observed gone (recycle interval 1 s, real timer) the recovered node must still be known. distinct = scenarios.")
		run.Assume("real time.AfterFunc timers of the recycler; the verdict is only taken after the control node was observed recycled")
		n := run.N(4, 20)
		for i := 0; i < n; i++ {
			if run.Skip(i) {
				continue
			}
			run.Begin(i, map[string]int{"scenario": i})
			recycleScenario(i)
			if i < 2 {
				run.Sample(map[string]interface{}{"scenario": i, "nodes": []string{"10.9.0.1:80 (control, never succeeds)", "10.9.0.2:80 (recovers)"}, "recycle_interval_s": 1})
			}
		}
		return
	}
	run = vk.Start("C20", "seq")
	defer run.Finish()
	run.Rule("case = (1-20 nodes [thorough: up to 40], max ejection percent from a list incl. float-awkward values [thorough: 0.00-1.00], active recovery on/off, retry timeout, probe number, 40-200 steps of requests routed to a node with success/failure and clock advances around the retry timeout); for every request FilterNodes() must contain only nodes whose reference breaker rejects, at most floor(pct x known nodes) of them, and HalfOpenNodes() must equal the passively probed nodes (empty with active recovery). non-trivial = at least one request with a non-empty filter; distinct by configuration.")
	run.Assume("the active-recovery check function always answers false and the recycle interval is the 10-minute default, so that the real-time retryer / recycler do not change breaker state during the virtual-time histories", "node iteration order is a map order: sets are compared")
	n := run.N(300, 12000)
	for i := 0; i < n; i++ {
		if run.Skip(i) {
			continue
		}
		c := genCase(run.Rand(i))
		run.Begin(i, c)
		if i < 2 {
			cc := *c
			if len(cc.Steps) > 12 {
				cc.Steps = cc.Steps[:12]
			}
			run.Sample(cc)
		}
		run.Guard("C20/panic", c, func() { runCase(i, c) })
	}
}
