// C08 monitor: sliding-window statistics vs. the aligned-bucket reference
// (ref.Win) on generated monotone histories, plus the constructibility grid.
package main

import (
	"fmt"
	"math"
	"math/rand"
	"sort"

	"github.com/alibaba/sentinel-golang/core/base"
	"github.com/alibaba/sentinel-golang/core/config"
	"github.com/alibaba/sentinel-golang/core/stat"
	sbase "github.com/alibaba/sentinel-golang/core/stat/base"

	"verif/ref"
	"verif/sx"
	"verif/vclock"
	"verif/vk"
)

type viewGeo struct{ SC, IV uint32 }

type step struct {
	Dt   uint64 `json:"dt"`
	Op   string `json:"op"`
	Ev   int    `json:"ev,omitempty"`
	Amt  int64  `json:"amt,omitempty"`
	Conc int32  `json:"conc,omitempty"`
}

type caseDesc struct {
	Mode   string    `json:"mode"` // "array" or "node"
	N      uint32    `json:"n"`
	I      uint32    `json:"interval"`
	Views  []viewGeo `json:"views"`
	T0     uint64    `json:"t0"`
	Steps  []step    `json:"steps"`
	FailAt int       `json:"fail_at,omitempty"`
}

var run *vk.Run
var clk *vclock.Clock

func divisors(n uint32) []uint32 {
	var d []uint32
	for i := uint32(1); i <= n; i++ {
		if n%i == 0 {
			d = append(d, i)
		}
	}
	return d
}

func genCase(rng *rand.Rand) *caseDesc {
	c := &caseDesc{}
	c.N = vk.PickU32(rng, 1, 1, 2, 2, 3, 4, 5, 6, 10, 12, 20, 20, 24)
	L := vk.PickU32(rng, 1, 7, 10, 100, 250, 300, 500, 500, 1000, 2000)
	c.I = c.N * L
	c.Mode = "array"
	if rng.Intn(3) == 0 {
		c.Mode = "node"
	}
	// views: iv = m*L with m | N, sc | m
	nv := 1 + rng.Intn(3)
	if c.Mode == "node" {
		nv = 1
	}
	ms := divisors(c.N)
	for i := 0; i < nv; i++ {
		m := ms[rng.Intn(len(ms))]
		ds := divisors(m)
		sc := ds[rng.Intn(len(ds))]
		c.Views = append(c.Views, viewGeo{sc, m * L})
	}
	switch rng.Intn(5) {
	case 0:
		c.T0 = 1 + uint64(rng.Intn(3))
	case 1:
		c.T0 = 1 + uint64(rng.Intn(int(3*c.I)))
	case 2:
		c.T0 = uint64(c.I) * uint64(1+rng.Intn(5))
	default:
		c.T0 = 1700000000000 + uint64(rng.Intn(100000))
	}
	ns := 20 + rng.Intn(180)
	t := c.T0
	for i := 0; i < ns; i++ {
		var s step
		l64, i64 := uint64(L), uint64(c.I)
		switch rng.Intn(14) {
		case 0, 1, 2:
			s.Dt = 0
		case 3:
			s.Dt = 1
		case 4:
			s.Dt = uint64(rng.Intn(int(L) + 1))
		case 5:
			s.Dt = l64 - t%l64 // to the next bucket boundary exactly
		case 6:
			s.Dt = l64 - t%l64 - 1 // last ms of the bucket
			if l64-t%l64 == 0 {
				s.Dt = 0
			}
		case 7:
			s.Dt = l64
		case 8:
			s.Dt = i64 - t%i64 // next cycle boundary
		case 9:
			s.Dt = i64
		case 10:
			s.Dt = i64 + uint64(rng.Intn(int(2*L)+1))
		case 11:
			s.Dt = 3*i64 + 7
		case 12:
			s.Dt = i64 - l64
		default:
			s.Dt = uint64(rng.Intn(int(c.I)))
			if rng.Intn(5) == 0 {
				// idle for (a multiple of) 2^32 ms and a bit: bucket ages must not be computed in 32 bits
				s.Dt += uint64(1+rng.Intn(3)) << 32
			}
		}
		t += s.Dt
		switch k := rng.Intn(10); {
		case k < 5:
			s.Op = "add"
			s.Ev = rng.Intn(5)
			s.Amt = []int64{0, 1, 1, 2, 3, 7, 50, 1000, 1 << 40}[rng.Intn(9)]
			if s.Ev == ref.EvRt {
				s.Amt = []int64{0, 1, 3, 10, 200, 59999, 60000, 70000}[rng.Intn(8)]
			}
		case k < 6:
			s.Op = "conc"
			s.Conc = int32(rng.Intn(40))
		default:
			s.Op = "read"
		}
		c.Steps = append(c.Steps, s)
	}
	return c
}

type subject struct {
	arr   *sbase.BucketLeapArray
	views []*sbase.SlidingWindowMetric
	node  *stat.BaseStatNode
}

func feq(a, b float64) bool {
	if math.IsNaN(a) || math.IsNaN(b) {
		return math.IsNaN(a) && math.IsNaN(b)
	}
	return a == b || math.Abs(a-b) <= 1e-9*math.Max(math.Abs(a), math.Abs(b))
}

func class(c *caseDesc, now uint64, iv uint32) string {
	L := uint64(c.I / c.N)
	cur := now - now%L
	switch {
	case cur+L < uint64(iv):
		return "near-zero(window-start-before-0)"
	case now%L == 0:
		return "on-bucket-boundary"
	}
	return "general"
}

func runCase(idx int, c *caseDesc) {
	clk.SetMs(c.T0)
	L := c.I / c.N
	w := ref.NewWin(c.N, c.I)
	var s subject
	if c.Mode == "node" {
		e := config.NewDefaultConfig()
		e.Sentinel.Stat.GlobalStatisticSampleCountTotal = c.N
		e.Sentinel.Stat.GlobalStatisticIntervalMsTotal = c.I
		e.Sentinel.Stat.MetricStatisticSampleCount = c.Views[0].SC
		e.Sentinel.Stat.MetricStatisticIntervalMs = c.Views[0].IV
		config.ResetGlobalConfig(e)
		s.node = stat.NewBaseStatNode(c.Views[0].SC, c.Views[0].IV)
		defer config.ResetGlobalConfig(config.NewDefaultConfig())
	} else {
		s.arr = sbase.NewBucketLeapArray(c.N, c.I)
		for _, v := range c.Views {
			m, err := sbase.NewSlidingWindowMetric(v.SC, v.IV, s.arr)
			if err != nil {
				run.Violation("C08/constructible:valid-view-rejected-in-history", fmt.Sprintf("view %v over %dx%d rejected: %v", v, c.N, c.I, err), c)
				return
			}
			s.views = append(s.views, m)
		}
	}
	bad := func(i int, getter, cls string, got, want interface{}, now uint64) {
		c.FailAt = i
		run.Violation("C08/"+getter+":"+cls, fmt.Sprintf("%s at t=%d (array %dx%dms, step %d) = %v, reference %v", getter, now, c.N, c.I, i, got, want), c)
	}
	nontrivial := false
	for i, st := range c.Steps {
		clk.AddMs(st.Dt)
		now := clk.Ms()
		switch st.Op {
		case "add":
			if s.node != nil {
				s.node.AddCount(base.MetricEvent(st.Ev), st.Amt)
			} else {
				s.arr.AddCount(base.MetricEvent(st.Ev), st.Amt)
			}
			w.Add(now, st.Ev, st.Amt)
		case "conc":
			if s.node != nil {
				s.node.UpdateConcurrency(st.Conc)
			} else {
				s.arr.UpdateConcurrency(st.Conc)
			}
			w.Conc(now, st.Conc)
		case "read":
			run.Count("reads", 1)
			I64 := uint64(c.I)
			if s.arr != nil {
				cls := class(c, now, c.I)
				for ev := 0; ev < ref.EvTotal; ev++ {
					want := w.Sum(ev, now, I64)
					if want != 0 {
						nontrivial = true
					}
					// half of the time read through the explicit-time entry point first
					if (i+ev)%2 == 0 {
						if got := s.arr.CountWithTime(now, base.MetricEvent(ev)); got != want {
							bad(i, "array.CountWithTime", cls, got, want, now)
							return
						}
					}
					if got := s.arr.Count(base.MetricEvent(ev)); got != want {
						bad(i, "array.Count", cls, got, want, now)
						return
					}
				}
				if got, want := s.arr.MinRt(), w.MinRt(now, I64); got != want {
					bad(i, "array.MinRt", cls, got, want, now)
					return
				}
				if got, want := s.arr.MaxConcurrency(), w.MaxConc(now, I64); got != want {
					bad(i, "array.MaxConcurrency", cls, got, want, now)
					return
				}
				// Values: every returned bucket aligned, inside the window, content equal
				lo, hi := w.Range(now, I64)
				seen := map[uint64]bool{}
				for _, bw := range s.arr.Values(now) {
					bs := bw.BucketStart
					mb := bw.Value.Load().(*sbase.MetricBucket)
					if bs%uint64(L) != 0 || bs < lo || bs > hi {
						nz := false
						for ev := 0; ev < ref.EvTotal; ev++ {
							if mb.Get(base.MetricEvent(ev)) != 0 {
								nz = true
							}
						}
						if nz || bs%uint64(L) != 0 {
							bad(i, "array.Values", cls+":bucket-outside-window", bs, fmt.Sprintf("[%d,%d]", lo, hi), now)
							return
						}
						continue
					}
					if seen[bs] {
						bad(i, "array.Values", cls+":duplicate-bucket", bs, "once", now)
						return
					}
					seen[bs] = true
					wc, wmin, wconc, _ := w.Bucket(bs)
					for ev := 0; ev < ref.EvTotal; ev++ {
						if got := mb.Get(base.MetricEvent(ev)); got != wc[ev] {
							bad(i, "array.Values.bucket", cls, fmt.Sprintf("bucket %d ev %d = %d", bs, ev, got), wc[ev], now)
							return
						}
					}
					if mb.MinRt() != wmin || mb.MaxConcurrency() != wconc {
						bad(i, "array.Values.bucket-minrt-conc", cls, fmt.Sprintf("bucket %d minrt %d conc %d", bs, mb.MinRt(), mb.MaxConcurrency()), fmt.Sprintf("%d/%d", wmin, wconc), now)
						return
					}
				}
				for bsx := lo; bsx <= hi; bsx += uint64(L) {
					if wc, _, wconc, ok := w.Bucket(bsx); ok && !seen[bsx] {
						nz := wconc != 0
						for _, v := range wc {
							if v != 0 {
								nz = true
							}
						}
						if nz {
							bad(i, "array.Values", cls+":bucket-missing", "absent", bsx, now)
							return
						}
					}
				}
			}
			for vi, vg := range c.Views {
				iv := uint64(vg.IV)
				cls := class(c, now, vg.IV)
				var rs interface {
					GetSum(base.MetricEvent) int64
					GetQPS(base.MetricEvent) float64
					GetPreviousQPS(base.MetricEvent) float64
					MinRT() float64
					MaxConcurrency() int32
				}
				name := "view"
				if s.node != nil {
					rs = s.node
					name = "node"
				} else {
					rs = s.views[vi]
				}
				vbl := uint64(vg.IV / vg.SC)
				for ev := 0; ev < ref.EvTotal; ev++ {
					want := w.Sum(ev, now, iv)
					if want != 0 {
						nontrivial = true
					}
					if got := rs.GetSum(base.MetricEvent(ev)); got != want {
						bad(i, name+".GetSum", cls, got, want, now)
						return
					}
					if got, wq := rs.GetQPS(base.MetricEvent(ev)), float64(want)/(float64(vg.IV)/1000.0); !feq(got, wq) {
						bad(i, name+".GetQPS", cls, got, wq, now)
						return
					}
					// previous window: only where the array still has a slot for its oldest bucket
					// (a previous window whose reference instant is exactly t=0 is skipped: the
					// library documents time 0 as "no time", like the monitor's own t>=1 domain)
					if uint64(c.I)-iv >= vbl && now != vbl {
						var wp int64
						if now >= vbl {
							wp = w.Sum(ev, now-vbl, iv)
						}
						pcls := cls
						if now < vbl+iv {
							pcls = "near-zero(window-start-before-0)"
						}
						if got, wq := rs.GetPreviousQPS(base.MetricEvent(ev)), float64(wp)/(float64(vg.IV)/1000.0); !feq(got, wq) {
							bad(i, name+".GetPreviousQPS", pcls, got, wq, now)
							return
						}
					}
				}
				wmin := w.MinRt(now, iv)
				if wmin < 1 {
					wmin = 1
				}
				if got := rs.MinRT(); got != float64(wmin) {
					bad(i, name+".MinRT", cls, got, wmin, now)
					return
				}
				if got, want := rs.MaxConcurrency(), w.MaxConc(now, iv); got != want {
					bad(i, name+".MaxConcurrency", cls, got, want, now)
					return
				}
				sumRt, sumC := w.Sum(ref.EvRt, now, iv), w.Sum(ref.EvComplete, now, iv)
				if s.node != nil {
					x := 0.0
					if sumC > 0 {
						x = float64(sumRt) / float64(sumC)
					}
					if got := s.node.AvgRT(); got > x+1e-9 || got < math.Floor(x)-1e-9 {
						bad(i, "node.AvgRT", cls, got, x, now)
						return
					}
					wm := float64(w.MaxBucket(ref.EvPass, now, iv)) * float64(vg.SC) / float64(vg.IV) * 1000.0
					if got := s.node.GetMaxAvg(base.MetricEventPass); !feq(got, wm) {
						bad(i, "node.GetMaxAvg", cls, got, wm, now)
						return
					}
					if !checkSeconds(i, c, w, now, name, s.node.MetricsOnCondition, bad) {
						return
					}
				} else {
					v := s.views[vi]
					if sumC > 0 {
						if got, x := v.AvgRT(), float64(sumRt)/float64(sumC); !feq(got, x) {
							bad(i, "view.AvgRT", cls, got, x, now)
							return
						}
					}
					for _, ev := range []int{ref.EvPass, ref.EvComplete} {
						if got, want := v.GetMaxOfSingleBucket(base.MetricEvent(ev)), w.MaxBucket(ev, now, iv); got != want {
							bad(i, "view.GetMaxOfSingleBucket", cls, got, want, now)
							return
						}
					}
					if !checkSeconds(i, c, w, now, name, v.SecondMetricsOnCondition, bad) {
						return
					}
				}
			}
		}
	}
	if nontrivial {
		run.Distinct(vk.Hash(c.Mode, c.N, c.I, c.Views, c.T0, len(c.Steps), idx))
	}
}

// checkSeconds compares the per-second items (predicate: every bucket start, and
// a half-open range) with the reference grouped by second.
func checkSeconds(i int, c *caseDesc, w *ref.Win, now uint64, name string,
	get func(base.TimePredicate) []*base.MetricItem,
	bad func(int, string, string, interface{}, interface{}, uint64)) bool {
	L := uint64(c.I / c.N)
	lo, hi := w.Range(now, uint64(c.I))
	cut := lo + (hi-lo)/2
	preds := []struct {
		n string
		p func(uint64) bool
	}{
		{"all", func(uint64) bool { return true }},
		{"upper-half", func(ts uint64) bool { return ts >= cut }},
	}
	for _, pr := range preds {
		type acc struct {
			pass, block, errq, comp, rt int64
			conc                        int32
		}
		want := map[uint64]*acc{}
		for bs := lo; bs <= hi; bs += L {
			if !pr.p(bs) {
				continue
			}
			wc, _, wconc, ok := w.Bucket(bs)
			if !ok {
				continue
			}
			sec := bs - bs%1000
			a := want[sec]
			if a == nil {
				a = &acc{}
				want[sec] = a
			}
			a.pass += wc[ref.EvPass]
			a.block += wc[ref.EvBlock]
			a.errq += wc[ref.EvError]
			a.comp += wc[ref.EvComplete]
			a.rt += wc[ref.EvRt]
			if wconc > a.conc {
				a.conc = wconc
			}
		}
		items := get(pr.p)
		seen := map[uint64]bool{}
		cls := class(c, now, c.I)
		for _, it := range items {
			if seen[it.Timestamp] {
				bad(i, name+".SecondMetrics", cls+":duplicate-second", it.Timestamp, "once", now)
				return false
			}
			seen[it.Timestamp] = true
			a := want[it.Timestamp]
			if a == nil {
				a = &acc{}
			}
			avg := uint64(a.rt)
			if a.comp > 0 {
				avg = uint64(a.rt) / uint64(a.comp)
			}
			if it.PassQps != uint64(a.pass) || it.BlockQps != uint64(a.block) || it.ErrorQps != uint64(a.errq) ||
				it.CompleteQps != uint64(a.comp) || it.AvgRt != avg || it.Concurrency != uint32(a.conc) {
				bad(i, name+".SecondMetrics", cls+":"+pr.n, fmt.Sprintf("%+v", *it), fmt.Sprintf("sec %d %+v avg %d", it.Timestamp, *a, avg), now)
				return false
			}
		}
		var secs []uint64
		for s := range want {
			secs = append(secs, s)
		}
		sort.Slice(secs, func(a, b int) bool { return secs[a] < secs[b] })
		for _, s := range secs {
			a := want[s]
			if !seen[s] && (a.pass|a.block|a.errq|a.comp|a.rt|int64(a.conc)) != 0 {
				bad(i, name+".SecondMetrics", cls+":second-missing:"+pr.n, "absent", fmt.Sprintf("sec %d %+v", s, *a), now)
				return false
			}
		}
	}
	return true
}

func grid() {
	// constructibility: constructible => the view tiles the parent's buckets exactly
	svals := []uint32{0, 1, 2, 3, 4, 5, 6, 8, 10, 12, 15, 20, 24}
	ivals := []uint32{0, 100, 200, 250, 300, 500, 600, 1000, 1500, 2000, 3000, 5000, 6000, 10000, 12000, 20000}
	n, okc, reuseOK := 0, 0, 0
	for _, psc := range svals {
		for _, piv := range ivals {
			parentValid := psc != 0 && piv != 0 && piv%psc == 0
			var arr *sbase.BucketLeapArray
			if parentValid {
				arr = sbase.NewBucketLeapArray(psc, piv)
			}
			for _, sc := range svals {
				for _, iv := range ivals {
					n++
					err := base.CheckValidityForReuseStatistic(sc, iv, psc, piv)
					tiles := parentValid && sc != 0 && iv != 0 && iv%sc == 0 && (iv/sc)%(piv/psc) == 0 && iv <= piv
					libCond := tiles && piv%iv == 0
					if err == nil && !tiles {
						run.Violation("C08/constructible:non-tiling-view-accepted(check)", fmt.Sprintf("CheckValidityForReuseStatistic(%d,%d,%d,%d) accepted a view that does not tile", sc, iv, psc, piv), []uint32{sc, iv, psc, piv})
					}
					if libCond && err == nil {
						reuseOK++
					}
					if libCond && err != nil {
						run.Count("grid.documented-reusable-but-rejected", 1)
					}
					if arr != nil {
						m, err2 := sbase.NewSlidingWindowMetric(sc, iv, arr)
						if (err2 == nil) != (m != nil) {
							run.Violation("C08/constructible:ctor-result-inconsistent", "NewSlidingWindowMetric returned both/neither of (metric, error)", []uint32{sc, iv, psc, piv})
						}
						if err2 == nil && !tiles {
							run.Violation("C08/constructible:non-tiling-view-accepted(ctor)", fmt.Sprintf("NewSlidingWindowMetric(%d,%d) over %dx%d constructed a view that does not tile", sc, iv, psc, piv), []uint32{sc, iv, psc, piv})
						}
						if err2 == nil {
							okc++
						}
					}
				}
			}
		}
	}
	run.Count("grid.tuples", int64(n))
	run.Count("grid.constructed", int64(okc))
	run.Count("grid.reusable", int64(reuseOK))
	run.Distinct("grid-accepted:" + fmt.Sprint(okc > 0))
	run.Distinct("grid-rejected:" + fmt.Sprint(n-okc > 0))
}

func main() {
	sx.Quiet()
	run = vk.Start("C08", "seq")
	defer run.Finish()
	run.Rule("case = (array geometry n×L, 1-3 tiling views or a BaseStatNode built from that global geometry, start time, 20-200 steps of add/conc/read with hostile time deltas); every read step compares every getter with ref.Win; non-trivial = at least one non-zero expected sum was read; distinct by case identity. Plus the exhaustive constructibility grid (13×16)^2.")
	run.Assume("time is driven only through util.SetClock (virtual clock)", "timestamps >= 1 (t=0 is documented invalid)",
		"previous-window reads only for views with arrayInterval-viewInterval >= one view bucket")
	clk = vclock.New(1)
	if !run.Replaying() {
		grid()
	}
	n := run.N(600, 30000)
	for i := 0; i < n; i++ {
		if run.Skip(i) {
			continue
		}
		c := genCase(run.Rand(i))
		run.Begin(i, map[string]interface{}{"mode": c.Mode, "n": c.N, "interval": c.I, "views": c.Views, "t0": c.T0, "steps": len(c.Steps)})
		if i < 2 {
			cc := *c
			if len(cc.Steps) > 12 {
				cc.Steps = cc.Steps[:12]
			}
			run.Sample(cc)
		}
		run.Guard("C08/panic", c, func() { runCase(i, c) })
	}
}
