// C15 monitor (built with -race): mixed traffic, rule churn through both load
// paths of every module, getters and statistic readers from many goroutines.
// Oracles: the race detector's log (scanned by the driver), no panic / fatal
// error (process death is a violation), generation-coded rule lists for the
// atomic-switch clause, constant decisions on un-churned resources, progress.
package main

import (
	"errors"
	"fmt"
	"math/rand"
	"os"
	"runtime"
	"strings"
	"sync"
	"sync/atomic"
	"time"

	sentinel "github.com/alibaba/sentinel-golang/api"
	"github.com/alibaba/sentinel-golang/core/base"
	cb "github.com/alibaba/sentinel-golang/core/circuitbreaker"
	"github.com/alibaba/sentinel-golang/core/flow"
	"github.com/alibaba/sentinel-golang/core/hotspot"
	"github.com/alibaba/sentinel-golang/core/isolation"
	"github.com/alibaba/sentinel-golang/core/outlier"
	"github.com/alibaba/sentinel-golang/core/stat"
	"github.com/alibaba/sentinel-golang/core/system"

	"verif/sx"
	"verif/vclock"
	"verif/vk"
)

var run *vk.Run
var clk *vclock.Clock
// progress counters, one per goroutine of the workload (-1 = finished): a goroutine that completes no operation
// for 60 s while others keep running is as stuck as the whole process
var (
	progMu sync.Mutex
	progs  []*int64
)

func newProg() *int64 {
	p := new(int64)
	progMu.Lock()
	progs = append(progs, p)
	progMu.Unlock()
	return p
}

// generation bookkeeping per churned module (single updater per module => total order)
type genCtl struct{ begun, done int64 }

var gFlow, gIso, gHot, gSys genCtl

const (
	rFlow  = "c15-flow-R"
	rIso   = "c15-iso-R"
	rHot   = "c15-hot-R"
	sBlock = "c15-S-block"
	sPass  = "c15-S-pass"
	rCb    = "c15-cb-R"
	hotQ   = "c15-hot-Q"
	rOut   = "c15-out-R"
	rPlain = "c15-plain"
	sysRes = "c15-inbound"
)

func gid(g int64, i int) string { return fmt.Sprintf("g%d.%d", g, i) }

// parse "g<g>.<i>"
func parseGid(s string) (g int64, i int, ok bool) {
	n, err := fmt.Sscanf(s, "g%d.%d", &g, &i)
	return g, i, err == nil && n == 2
}

func flowGen(g int64) []*flow.Rule {
	pass := func(i int) *flow.Rule {
		return &flow.Rule{ID: gid(g, i), Resource: rFlow, TokenCalculateStrategy: flow.Direct, ControlBehavior: flow.Reject, Threshold: 1e12, MaxQueueingTimeMs: uint32(g)}
	}
	block := func(i int) *flow.Rule {
		return &flow.Rule{ID: gid(g, i), Resource: rFlow, TokenCalculateStrategy: flow.Direct, ControlBehavior: flow.Reject, Threshold: 0, MaxQueueingTimeMs: uint32(g)}
	}
	if g%2 == 0 {
		return []*flow.Rule{pass(0), block(1)}
	}
	return []*flow.Rule{block(0), pass(1)}
}

func fixedFlow() []*flow.Rule {
	return []*flow.Rule{
		{ID: "S-block", Resource: sBlock, TokenCalculateStrategy: flow.Direct, ControlBehavior: flow.Reject, Threshold: 0},
		{ID: "S-pass", Resource: sPass, TokenCalculateStrategy: flow.Direct, ControlBehavior: flow.Reject, Threshold: 1e12},
		// two un-churned rules of other resources that meter on sPass's traffic through standalone windows: every request on
		// sPass walks the derived "rules referencing this resource" list while the flow updater rebuilds that index
		{ID: "A1", Resource: "c15-assoc-1", TokenCalculateStrategy: flow.Direct, ControlBehavior: flow.Reject, Threshold: 1e12,
			RelationStrategy: flow.AssociatedResource, RefResource: sPass, StatIntervalInMs: 20000},
		{ID: "A2", Resource: "c15-assoc-2", TokenCalculateStrategy: flow.Direct, ControlBehavior: flow.Reject, Threshold: 1e12,
			RelationStrategy: flow.AssociatedResource, RefResource: sPass, StatIntervalInMs: 20000},
	}
}

func isoGen(g int64) []*isolation.Rule {
	// one entry is held forever on rIso, so a threshold of 1 blocks everything
	pass := func(i int) *isolation.Rule {
		return &isolation.Rule{ID: gid(g, i), Resource: rIso, MetricType: isolation.Concurrency, Threshold: 4000000000}
	}
	block := func(i int) *isolation.Rule {
		return &isolation.Rule{ID: gid(g, i), Resource: rIso, MetricType: isolation.Concurrency, Threshold: 1}
	}
	if g%2 == 0 {
		return []*isolation.Rule{pass(0), block(1)}
	}
	return []*isolation.Rule{block(0), pass(1)}
}

func hotGen(g int64) []*hotspot.Rule {
	pass := func(i int) *hotspot.Rule {
		return &hotspot.Rule{ID: gid(g, i), Resource: rHot, MetricType: hotspot.Concurrency, ParamIndex: 0, Threshold: 1 << 40, ParamsMaxCapacity: 100000 + g}
	}
	block := func(i int) *hotspot.Rule {
		return &hotspot.Rule{ID: gid(g, i), Resource: rHot, MetricType: hotspot.Concurrency, ParamIndex: 0, Threshold: 0, ParamsMaxCapacity: 100000 + g}
	}
	if g%2 == 0 {
		return []*hotspot.Rule{pass(0), block(1)}
	}
	return []*hotspot.Rule{block(0), pass(1)}
}

// hotFixed: an un-churned pass-all QPS rule whose parameter cache (capacity 6) is hit with 8 values from all traffic
// goroutines at once: cached lookups, insertions and evictions of the LRU run in parallel
func hotFixed() []*hotspot.Rule {
	return []*hotspot.Rule{{ID: "hotQ", Resource: hotQ, MetricType: hotspot.QPS, ControlBehavior: hotspot.Reject, ParamIndex: 0, Threshold: 1 << 40, DurationInSec: 1, ParamsMaxCapacity: 6}}
}

func sysGen(g int64) []*system.Rule {
	pass := func(i int) *system.Rule {
		return &system.Rule{ID: gid(g, i), MetricType: system.Concurrency, TriggerCount: 1e12, Strategy: system.NoAdaptive}
	}
	block := func(i int) *system.Rule {
		return &system.Rule{ID: gid(g, i), MetricType: system.Concurrency, TriggerCount: 0, Strategy: system.NoAdaptive}
	}
	if g%2 == 0 {
		return []*system.Rule{pass(0), block(1)}
	}
	return []*system.Rule{block(0), pass(1)}
}

type vio struct {
	sig, msg string
}

var vioMu sync.Mutex
var vios []vio

func report(sig, msg string) {
	vioMu.Lock()
	if len(vios) < 200 {
		vios = append(vios, vio{sig, msg})
	}
	vioMu.Unlock()
}

// checkGen validates one decision on a generation-coded resource.
func checkGen(mod string, ctl *genCtl, lo int64, e *base.SentinelEntry, b *base.BlockError, ruleID func(base.SentinelRule) (string, bool), wantType base.BlockType) {
	hi := atomic.LoadInt64(&ctl.begun)
	if b == nil {
		report("C15/atomic-switch:"+mod+":request-passed", fmt.Sprintf("[%s] a request racing with rule updates passed, although every single generation (%d..%d) of the rule list blocks it: it was decided by a mixture of two lists or by no list", mod, lo, hi))
		return
	}
	if b.BlockType() != wantType {
		report("C15/atomic-switch:"+mod+":wrong-block-type", fmt.Sprintf("[%s] blocked with %s", mod, b.BlockType()))
		return
	}
	id, ok := ruleID(b.TriggeredRule())
	if !ok {
		report("C15/atomic-switch:"+mod+":no-triggered-rule", fmt.Sprintf("[%s] blocked without a triggered rule of the module (%T)", mod, b.TriggeredRule()))
		return
	}
	g, i, ok := parseGid(id)
	if !ok {
		report("C15/atomic-switch:"+mod+":foreign-rule", fmt.Sprintf("[%s] blocked by rule %q which is not of this resource's generations", mod, id))
		return
	}
	want := 1
	if g%2 != 0 {
		want = 0
	}
	if i != want {
		report("C15/atomic-switch:"+mod+":torn-list", fmt.Sprintf("[%s] blocked by rule %q: position %d of generation %d is the pass-all rule of that generation", mod, id, i, g))
		return
	}
	if g < lo || g > hi {
		report("C15/atomic-switch:"+mod+":generation-out-of-range", fmt.Sprintf("[%s] decided by generation %d, but load %d had completed before the request began and load %d was the last one begun when it returned", mod, g, lo, hi))
	}
	atomic.AddInt64(&genChecks, 1)
}

var genChecks int64

func traffic(id int, rng *rand.Rand, n int, wg *sync.WaitGroup) {
	defer wg.Done()
	prog := newProg()
	defer atomic.StoreInt64(prog, -1)
	for k := 0; k < n; k++ {
		atomic.AddInt64(prog, 1)
		switch rng.Intn(12) {
		case 0, 1:
			lo := atomic.LoadInt64(&gFlow.done)
			e, b := sentinel.Entry(rFlow)
			checkGen("flow", &gFlow, lo, e, b, func(r base.SentinelRule) (string, bool) {
				x, ok := r.(*flow.Rule)
				if !ok || x == nil {
					return "", false
				}
				return x.ID, true
			}, base.BlockTypeFlow)
			if e != nil {
				e.Exit()
			}
		case 2:
			lo := atomic.LoadInt64(&gIso.done)
			e, b := sentinel.Entry(rIso)
			checkGen("isolation", &gIso, lo, e, b, func(r base.SentinelRule) (string, bool) {
				x, ok := r.(*isolation.Rule)
				if !ok || x == nil {
					return "", false
				}
				return x.ID, true
			}, base.BlockTypeIsolation)
			if e != nil {
				e.Exit()
			}
		case 3:
			lo := atomic.LoadInt64(&gHot.done)
			e, b := sentinel.Entry(rHot, sentinel.WithArgs("v"))
			checkGen("hotspot", &gHot, lo, e, b, func(r base.SentinelRule) (string, bool) {
				x, ok := r.(*hotspot.Rule)
				if !ok || x == nil {
					return "", false
				}
				return x.ID, true
			}, base.BlockTypeHotSpotParamFlow)
			if e != nil {
				e.Exit()
			}
		case 4:
			lo := atomic.LoadInt64(&gSys.done)
			e, b := sentinel.Entry(sysRes, sentinel.WithTrafficType(base.Inbound))
			checkGen("system", &gSys, lo, e, b, func(r base.SentinelRule) (string, bool) {
				x, ok := r.(*system.Rule)
				if !ok || x == nil {
					return "", false
				}
				return x.ID, true
			}, base.BlockTypeSystemFlow)
			if e != nil {
				e.Exit()
			}
		case 5:
			// un-churned resources: decisions must be constant
			e, b := sentinel.Entry(sBlock)
			if b == nil {
				report("C15/isolation-of-resources:always-block-resource-passed", "a request on the un-churned always-block resource passed while another resource's rules were being updated")
				e.Exit()
			} else if r, ok := b.TriggeredRule().(*flow.Rule); !ok || r.ID != "S-block" {
				report("C15/isolation-of-resources:wrong-rule", fmt.Sprintf("un-churned resource blocked by %v", b.TriggeredRule()))
			}
			atomic.AddInt64(&fixedChecks, 1)
		case 6:
			if rng.Intn(2) == 0 {
				e, b := sentinel.Entry(hotQ, sentinel.WithArgs(rng.Intn(8)))
				if b != nil {
					report("C15/isolation-of-resources:always-pass-resource-blocked", fmt.Sprintf("a request on the un-churned pass-all hot-parameter resource was blocked: %v", b))
				} else {
					e.Exit()
				}
				atomic.AddInt64(&fixedChecks, 1)
				break
			}
			e, b := sentinel.Entry(sPass)
			if b != nil {
				report("C15/isolation-of-resources:always-pass-resource-blocked", fmt.Sprintf("a request on the un-churned always-pass resource was blocked: %v", b))
			} else {
				e.Exit()
			}
			atomic.AddInt64(&fixedChecks, 1)
		case 7, 8:
			e, b := sentinel.Entry(rCb)
			if b == nil {
				if rng.Intn(3) == 0 {
					sentinel.TraceError(e, errors.New("biz"))
				}
				e.Exit()
				if rng.Intn(8) == 0 {
					e.Exit() // repeated exit
				}
			}
		case 9:
			e, b := sentinel.Entry(rOut, sentinel.WithSlotChain(outChain))
			if b == nil {
				sentinel.TraceCallee(e, fmt.Sprintf("10.0.0.%d:80", rng.Intn(4)))
				if rng.Intn(2) == 0 {
					sentinel.TraceError(e, errors.New("biz"))
				}
				_ = e.Context().FilterNodes()
				e.Exit()
			}
		default:
			res, a0 := fmt.Sprintf("%s-%d", rPlain, rng.Intn(6)), rng.Intn(5)
			e, b := sentinel.Entry(res, sentinel.WithBatchCount(uint32(1+rng.Intn(3))), sentinel.WithArgs(a0, "x"), sentinel.WithAttachment("k", a0))
			if b == nil {
				if rng.Intn(4) == 0 {
					// the entry stays open while this and the other goroutines open further entries with arguments
					// (pooled option / context objects are recycled meanwhile); its own arguments must not change
					runtime.Gosched()
					e2, b2 := sentinel.Entry(res, sentinel.WithArgs(a0+100, "y", id), sentinel.WithAttachment("k", a0+100), sentinel.WithAttachment("other", id))
					if rng.Intn(2) == 0 {
						time.Sleep(20 * time.Microsecond)
					}
					if got := e.Context().Input.Args; len(got) != 2 || got[0] != a0 || got[1] != "x" {
						report("C15/live-entry-args-changed", fmt.Sprintf("a live entry opened WithArgs(%d, \"x\") now carries %v", a0, got))
					}
					if got := e.Context().Input.Attachments; len(got) != 1 || got["k"] != a0 {
						report("C15/live-entry-attachments-changed", fmt.Sprintf("a live entry opened WithAttachment(\"k\", %d) now carries %v", a0, got))
					}
					if b2 == nil {
						e2.Exit()
					}
				}
				e.Exit()
			}
		}
		if k%64 == 0 {
			runtime.Gosched()
		}
	}
}

const faultyStrategy = cb.Strategy(100)

var fixedChecks int64
var outChain *base.SlotChain

func updaters(stop *int32, rng *rand.Rand, wg *sync.WaitGroup) {
	loop := func(f func(g int64, r *rand.Rand)) {
		wg.Add(1)
		r := rand.New(rand.NewSource(rng.Int63()))
		go func() {
			defer wg.Done()
			prog := newProg()
			defer atomic.StoreInt64(prog, -1)
			for g := int64(1); atomic.LoadInt32(stop) == 0; g++ {
				f(g, r)
				atomic.AddInt64(prog, 1)
				if r.Intn(4) == 0 {
					time.Sleep(time.Duration(r.Intn(200)) * time.Microsecond)
				} else {
					runtime.Gosched()
				}
			}
		}()
	}
	loop(func(g int64, r *rand.Rand) {
		atomic.StoreInt64(&gFlow.begun, g)
		if r.Intn(2) == 0 {
			flow.LoadRules(append(fixedFlow(), flowGen(g)...))
		} else {
			flow.LoadRulesOfResource(rFlow, flowGen(g))
		}
		atomic.StoreInt64(&gFlow.done, g)
		if r.Intn(3) == 0 {
			// churn another resource through the per-resource path (and clear it again)
			flow.LoadRulesOfResource("c15-flow-other", []*flow.Rule{{Resource: "c15-flow-other", Threshold: float64(g)}})
			if r.Intn(2) == 0 {
				flow.ClearRulesOfResource("c15-flow-other")
			}
		}
	})
	loop(func(g int64, r *rand.Rand) {
		atomic.StoreInt64(&gIso.begun, g)
		if r.Intn(2) == 0 {
			isolation.LoadRules(isoGen(g))
		} else {
			isolation.LoadRulesOfResource(rIso, isoGen(g))
		}
		atomic.StoreInt64(&gIso.done, g)
		if r.Intn(3) == 0 {
			isolation.LoadRulesOfResource("c15-iso-other", []*isolation.Rule{{Resource: "c15-iso-other", Threshold: uint32(g + 1)}})
			isolation.ClearRulesOfResource("c15-iso-other")
		}
	})
	loop(func(g int64, r *rand.Rand) {
		atomic.StoreInt64(&gHot.begun, g)
		if r.Intn(2) == 0 {
			hotspot.LoadRules(append(hotFixed(), hotGen(g)...))
		} else {
			hotspot.LoadRulesOfResource(rHot, hotGen(g))
		}
		atomic.StoreInt64(&gHot.done, g)
	})
	loop(func(g int64, r *rand.Rand) {
		atomic.StoreInt64(&gSys.begun, g)
		system.LoadRules(sysGen(g))
		atomic.StoreInt64(&gSys.done, g)
	})
	loop(func(g int64, r *rand.Rand) {
		rules := []*cb.Rule{{Id: fmt.Sprint("cb", g), Resource: rCb, Strategy: cb.ErrorCount, RetryTimeoutMs: uint32(1 + g%50), MinRequestAmount: 1, StatIntervalMs: 1000, Threshold: float64(2 + g%5)}}
		if r.Intn(6) == 0 {
			// a rule of a user-registered strategy whose generator panics: the load fails (error), nothing may be
			// left locked or half-built
			rules = append(rules, &cb.Rule{Id: fmt.Sprint("faulty", g), Resource: rCb + "-faulty", Strategy: faultyStrategy, RetryTimeoutMs: 10, MinRequestAmount: 1, StatIntervalMs: 1000, Threshold: 1})
		}
		if r.Intn(2) == 0 {
			cb.LoadRules(rules)
		} else {
			cb.LoadRulesOfResource(rCb, rules[:1])
			if len(rules) > 1 {
				cb.LoadRulesOfResource(rCb+"-faulty", rules[1:])
			}
		}
		if r.Intn(10) == 0 {
			cb.ClearRulesOfResource(rCb)
		}
	})
	loop(func(g int64, r *rand.Rand) {
		rule := &outlier.Rule{Rule: &cb.Rule{Id: fmt.Sprint("o", g), Resource: rOut, Strategy: cb.ErrorCount, RetryTimeoutMs: uint32(1 + g%50), MinRequestAmount: 1, StatIntervalMs: 1000, Threshold: float64(2 + g%5)}, MaxEjectionPercent: 0.5}
		if r.Intn(2) == 0 {
			outlier.LoadRules([]*outlier.Rule{rule})
		} else {
			outlier.LoadRuleOfResource(rOut, rule)
		}
	})
}

func readers(stop *int32, rng *rand.Rand, wg *sync.WaitGroup, n int) {
	for i := 0; i < n; i++ {
		wg.Add(1)
		r := rand.New(rand.NewSource(rng.Int63()))
		go func() {
			defer wg.Done()
			prog := newProg()
			defer atomic.StoreInt64(prog, -1)
			for atomic.LoadInt32(stop) == 0 {
				atomic.AddInt64(prog, 1)
				switch r.Intn(14) {
				case 0:
					_ = flow.GetRules()
				case 1:
					_ = flow.GetRulesOfResource(rFlow)
				case 2:
					_ = isolation.GetRules()
				case 3:
					_ = isolation.GetRulesOfResource(rIso)
				case 4:
					_ = hotspot.GetRules()
				case 5:
					_ = hotspot.GetRulesOfResource(rHot)
				case 6:
					_ = cb.GetRules()
				case 7:
					_ = cb.GetRulesOfResource(rCb)
				case 8:
					_ = system.GetRules()
				case 9:
					_ = outlier.GetRules()
				case 10:
					for _, n := range stat.ResourceNodeList() {
						_ = n.GetQPS(base.MetricEventPass)
						_ = n.CurrentConcurrency()
					}
				case 11:
					if n := stat.GetResourceNode(rFlow); n != nil {
						_ = n.GetSum(base.MetricEventBlock)
						_ = n.AvgRT()
						_ = n.MinRT()
						_ = n.MetricsOnCondition(func(uint64) bool { return true })
					}
				case 12:
					n := stat.InboundNode()
					_ = n.GetQPS(base.MetricEventPass)
					_ = n.GetMaxAvg(base.MetricEventComplete)
					_ = n.MaxConcurrency()
				default:
					_ = stat.GetResourceNode(rCb)
				}
				if r.Intn(16) == 0 {
					runtime.Gosched()
				}
			}
		}()
	}
}

func main() {
	sx.Quiet()
	run = vk.Start("C15", "race")
	defer run.Finish()
	run.Rule("round = 12 traffic goroutines x N requests over 9 resource kinds (generation-coded flow / isolation / hot-param / system resources, un-churned always-block / always-pass resources, breaker and outlier resources, plain resources) + 6 rule updaters (one per module, alternating whole-set and per-resource loads, clears) + 4 reader goroutines (every getter, node statistics, node list, per-second items) + a clock ticker, under the Go race detector. Each decision on a generation-coded resource must be a block by the block-all rule of ONE generation g with done-before-call <= g <= begun-before-return; un-churned resources must decide constantly. distinct = rounds (by number of generations switched).")
	run.Assume("one updater goroutine per module (total order of generations)", "generation rules differ semantically between generations so that the managers cannot re-use the previous generation's controller object", "race reports are collected by the driver from GORACE log files; process death (panic, fatal error: concurrent map writes, checkptr) is reported by the driver as a violation")
	clk = vclock.New(1900000000000)
	_ = cb.SetCircuitBreakerGenerator(faultyStrategy, func(r *cb.Rule, reuseStat interface{}) (cb.CircuitBreaker, error) {
		panic("user generator fails")
	})
	outChain = sentinel.BuildDefaultSlotChain()
	outChain.AddRuleCheckSlot(outlier.DefaultSlot)
	outChain.AddStatSlot(outlier.DefaultMetricStatSlot)
	rounds := run.N(3, 20)
	perG := run.N(6000, 80000)
	for r := 0; r < rounds; r++ {
		if run.Skip(r) {
			continue
		}
		run.Begin(r, map[string]int{"round": r, "requests_per_traffic_goroutine": perG})
		rng := run.Rand(r)
		// initial generation 0 everywhere, fixed rules, one entry held forever on rIso
		flow.LoadRules(append(fixedFlow(), flowGen(0)...))
		isolation.LoadRules(nil)
		held, _ := sentinel.Entry(rIso)
		isolation.LoadRules(isoGen(0))
		hotspot.LoadRules(append(hotFixed(), hotGen(0)...))
		system.LoadRules(sysGen(0))
		gFlow, gIso, gHot, gSys = genCtl{}, genCtl{}, genCtl{}, genCtl{}
		var stop int32
		var bg, tw sync.WaitGroup
		bg.Add(1)
		go func() { // clock ticker
			defer bg.Done()
			for atomic.LoadInt32(&stop) == 0 {
				clk.AddMs(1)
				time.Sleep(50 * time.Microsecond)
			}
		}()
		updaters(&stop, rng, &bg)
		readers(&stop, rng, &bg, 4)
		// progress watchdog (wall clock; only ever yields "inconclusive" or a deadlock report backed by a goroutine dump)
		doneCh := make(chan struct{})
		go func() {
			last := map[*int64]int64{}
			stall := map[*int64]int{}
			for {
				select {
				case <-doneCh:
					return
				case <-time.After(20 * time.Second):
				}
				stalls := 0
				progMu.Lock()
				for _, p := range progs {
					cur := atomic.LoadInt64(p)
					if l, seen := last[p]; seen && cur == l && cur != -1 {
						stall[p]++
					} else {
						stall[p] = 0
					}
					last[p] = cur
					if stall[p] > stalls {
						stalls = stall[p]
					}
				}
				progMu.Unlock()
				if stalls >= 3 {
					buf := make([]byte, 1<<22)
					buf = buf[:runtime.Stack(buf, true)]
					dump := string(buf)
					blocked := 0
					for _, gr := range strings.Split(dump, "\n\n") {
						// parked on a library mutex for at least a minute (the runtime prints "N minutes" in the header)
						hdr := gr
						if k := strings.Index(gr, "\n"); k >= 0 {
							hdr = gr[:k]
						}
						if (strings.Contains(gr, "sync.(*Mutex).Lock") || strings.Contains(gr, "sync.(*RWMutex)")) && strings.Contains(gr, "sentinel-golang/") && strings.Contains(hdr, "minutes]") {
							blocked++
						}
					}
					if blocked >= 2 {
						report("C15/deadlock", fmt.Sprintf("a goroutine of the workload completed no operation for 60 s and %d goroutines have been parked on mutexes inside the library for more than a minute", blocked))
					} else {
						run.Inconclusive("a goroutine made no progress for 60 s but fewer than two goroutines have been parked on library mutexes for a minute")
					}
					os.Stderr.WriteString(dump)
					vioMu.Lock()
					for _, v := range vios {
						run.Violation(v.sig, v.msg, nil)
					}
					vioMu.Unlock()
					run.Finish()
					os.Exit(0)
				}
			}
		}()
		for t := 0; t < 12; t++ {
			tw.Add(1)
			go traffic(t, rand.New(rand.NewSource(rng.Int63())), perG, &tw)
		}
		tw.Wait()
		atomic.StoreInt32(&stop, 1)
		bg.Wait()
		close(doneCh)
		if held != nil {
			held.Exit()
		}
		run.Count("generations.flow", gFlow.done)
		run.Count("generations.isolation", gIso.done)
		run.Count("generations.hotspot", gHot.done)
		run.Count("generations.system", gSys.done)
		run.Count("requests", int64(12*perG))
		run.Distinct(vk.Hash(r, gFlow.done, gIso.done, gHot.done, gSys.done))
		run.Sample(map[string]interface{}{"round": r, "traffic_goroutines": 12, "requests_each": perG, "updaters": 6, "readers": 4,
			"generations_switched": map[string]int64{"flow": gFlow.done, "isolation": gIso.done, "hotspot": gHot.done, "system": gSys.done},
			"example_generation_3": []string{"g3.0 block-all", "g3.1 pass-all"}, "example_generation_4": []string{"g4.0 pass-all", "g4.1 block-all"}})
	}
	run.Count("generation_checked_decisions", genChecks)
	run.Count("fixed_resource_decisions", fixedChecks)
	vioMu.Lock()
	for _, v := range vios {
		run.Violation(v.sig, v.msg, nil)
	}
	vioMu.Unlock()
	if genChecks < 100 {
		run.Inconclusive("fewer than 100 generation-checked decisions observed")
	}
}
