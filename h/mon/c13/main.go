// C13 monitor: for each rule module, sequences of whole-set / per-resource loads
// and clears with lists mixing valid rules, field-wise invalid rules and nil
// elements; after every step the getters and probe traffic are compared with a
// model (valid rules of the latest load per resource, in order).
package main

import (
	"errors"
	"fmt"
	"math/rand"
	"os"
	"sort"
	"strings"

	sentinel "github.com/alibaba/sentinel-golang/api"
	"github.com/alibaba/sentinel-golang/core/base"
	cb "github.com/alibaba/sentinel-golang/core/circuitbreaker"
	"github.com/alibaba/sentinel-golang/core/flow"
	"github.com/alibaba/sentinel-golang/core/hotspot"
	"github.com/alibaba/sentinel-golang/core/isolation"
	"github.com/alibaba/sentinel-golang/core/outlier"
	"github.com/alibaba/sentinel-golang/core/system"

	"verif/sx"
	"verif/vclock"
	"verif/vk"
)

// R is one generated rule: the library object plus what the monitor knows about it.
type R struct {
	ID    string
	Res   string
	Valid bool   // by the monitor's own transcription of the module's documented validity
	Why   string // invalidity class
	K     int    // probe signature: the rule binds after K admissions (0 = inert / never binds)
	Lib   interface{}
	Mk    func() interface{} // builds a fresh, equal library object (identical reload)
	// Alt, when set, returns the same rule (same id) with exactly one behaviour-relevant field other than the
	// binding threshold changed (and the probe signature that follows from it)
	Alt func() *R
	// Zero: the rule blocks the probe at once (0 admissions), e.g. a specific item of 0 for the probe value
	Zero bool
	// NoSetK: K is not simply the threshold field (associated rules): no threshold edits on this rule
	NoSetK bool
}

type probeRes struct {
	N       int    // admissions before the first block (cap = probeCap)
	Blocker string // id of the triggered rule ("" = none)
	Note    string
}

const probeCap = 12

type module struct {
	name      string
	perRes    bool
	single    bool // at most one rule per resource (outlier)
	unordered bool
	gen       func(rng *rand.Rand, res string, id string, kind int) *R
	// setK patches the field that carries the probe signature of a binding rule (its threshold) in a library object
	setK func(lib interface{}, k int)
	kinds     int // number of invalid kinds (kind 0 = valid binding, 1 = valid inert, >=2 invalid classes)
	loadAll   func(rs []*R, fresh bool) (bool, error)
	loadRes   func(res string, rs []*R, fresh bool) (bool, error)
	clearAll  func() error
	clearRes  func(res string) error
	idsAll    func() []string
	idsRes    func(res string) []string
	probe     func(res string) probeRes
}

var run *vk.Run
var clk *vclock.Clock
var uid int

func nid(p string) string { uid++; return fmt.Sprintf("%s%d", p, uid) }

// ------------------------------------------------------------------ flow

func flowModule() *module {
	m := &module{name: "flow", perRes: true, kinds: 11}
	m.setK = func(lib interface{}, k int) { lib.(*flow.Rule).Threshold = float64(k) }
	m.gen = func(rng *rand.Rand, res, id string, kind int) *R {
		r := &R{ID: id, Res: res, Valid: true}
		var mk0 func() *flow.Rule
		k := 1 + rng.Intn(8)
		uq := uint32(uid) // makes every generated rule semantically unique: the managers re-use the
		// controller (and the OLD rule object, old ID included) of a rule that is equal in every field but ID
		mk := func() *flow.Rule {
			x := mk0()
			if x != nil {
				x.MaxQueueingTimeMs = uq
			}
			return x
		}
		switch kind {
		case 0:
			r.K = k
			// any statistic interval is valid: multiples and non-multiples of the global bucket length, shorter and
			// longer than the global window (the probe runs inside one frozen instant, so K does not depend on it)
			iv := vk.PickU32(rng, 0, 0, 0, 100, 500, 1000, 1100, 1300, 2000, 2500, 9999, 10000, 20000, 60000)
			mk0 = func() *flow.Rule {
				return &flow.Rule{ID: id, Resource: res, TokenCalculateStrategy: flow.Direct, ControlBehavior: flow.Reject, Threshold: float64(k), StatIntervalInMs: iv}
			}
			if k >= 2 && rng.Intn(5) == 0 {
				// a binding ASSOCIATED rule: it meters the traffic of <res>-ref, which the probe feeds with one request
				// before each of its own: the j-th probe request sees j tokens there, so k-1 are admitted
				r.K, r.NoSetK = k-1, true
				aiv := vk.PickU32(rng, 0, 3000, 20000, 700)
				mk0 = func() *flow.Rule {
					return &flow.Rule{ID: id, Resource: res, TokenCalculateStrategy: flow.Direct, ControlBehavior: flow.Reject, Threshold: float64(k), StatIntervalInMs: aiv,
						RelationStrategy: flow.AssociatedResource, RefResource: res + "-ref"}
				}
			}
		case 1: // valid but never binding in the probe
			switch rng.Intn(4) {
			case 3:
				// (a memory-adaptive pacing rule: it keeps no window of its own - a rule that replaces it must not inherit one)
				mk0 = func() *flow.Rule {
					return &flow.Rule{ID: id, Resource: res, TokenCalculateStrategy: flow.MemoryAdaptive, ControlBehavior: flow.Throttling,
						LowMemUsageThreshold: 1e9, HighMemUsageThreshold: 5e8, MemLowWaterMarkBytes: 1000, MemHighWaterMarkBytes: 2000}
				}
			case 0:
				mk0 = func() *flow.Rule {
					return &flow.Rule{ID: id, Resource: res, TokenCalculateStrategy: flow.Direct, ControlBehavior: flow.Throttling, Threshold: 1e9}
				}
			case 1:
				mk0 = func() *flow.Rule {
					return &flow.Rule{ID: id, Resource: res, TokenCalculateStrategy: flow.WarmUp, ControlBehavior: flow.Reject, Threshold: 1e9, WarmUpPeriodSec: 10}
				}
			default:
				mk0 = func() *flow.Rule {
					return &flow.Rule{ID: id, Resource: res, TokenCalculateStrategy: flow.Direct, ControlBehavior: flow.Reject, Threshold: 1e9, RelationStrategy: flow.AssociatedResource, RefResource: res + "-ref"}
				}
			}
		default:
			r.Valid = false
			base := func() *flow.Rule {
				return &flow.Rule{ID: id, Resource: res, TokenCalculateStrategy: flow.Direct, ControlBehavior: flow.Reject, Threshold: 0}
			}
			switch kind {
			case 2:
				r.Why = "negative-threshold"
				mk0 = func() *flow.Rule { x := base(); x.Threshold = -1; return x }
			case 3:
				r.Why = "negative-token-strategy"
				mk0 = func() *flow.Rule { x := base(); x.TokenCalculateStrategy = -1; return x }
			case 4:
				r.Why = "negative-control-behavior"
				mk0 = func() *flow.Rule { x := base(); x.ControlBehavior = -1; return x }
			case 5:
				r.Why = "bad-relation-strategy"
				mk0 = func() *flow.Rule { x := base(); x.RelationStrategy = 5; return x }
			case 6:
				r.Why = "associated-without-ref"
				mk0 = func() *flow.Rule { x := base(); x.RelationStrategy = flow.AssociatedResource; return x }
			case 7:
				r.Why = "warmup-period-0"
				mk0 = func() *flow.Rule {
					x := base()
					x.TokenCalculateStrategy = flow.WarmUp
					x.WarmUpColdFactor = 3
					return x
				}
			case 8:
				r.Why = "warmup-coldfactor-1"
				mk0 = func() *flow.Rule {
					x := base()
					x.TokenCalculateStrategy = flow.WarmUp
					x.WarmUpPeriodSec = 5
					x.WarmUpColdFactor = 1
					return x
				}
			case 9:
				r.Why = "memory-adaptive-bad-marks"
				mk0 = func() *flow.Rule {
					x := base()
					x.TokenCalculateStrategy = flow.MemoryAdaptive
					x.LowMemUsageThreshold = 1
					x.HighMemUsageThreshold = 5
					x.MemLowWaterMarkBytes = 10
					x.MemHighWaterMarkBytes = 5
					return x
				}
			default:
				r.Why = "nil"
				mk0 = func() *flow.Rule { return nil }
			}
		}
		r.Mk = func() interface{} { return mk() }
		r.Lib = mk()
		return r
	}
	conv := func(rs []*R, fresh bool) []*flow.Rule {
		out := make([]*flow.Rule, 0, len(rs))
		for _, r := range rs {
			if fresh {
				out = append(out, r.Mk().(*flow.Rule))
			} else {
				out = append(out, r.Lib.(*flow.Rule))
			}
		}
		return out
	}
	m.loadAll = func(rs []*R, fresh bool) (bool, error) { return flow.LoadRules(conv(rs, fresh)) }
	m.loadRes = func(res string, rs []*R, fresh bool) (bool, error) {
		return flow.LoadRulesOfResource(res, conv(rs, fresh))
	}
	m.clearAll = flow.ClearRules
	m.clearRes = flow.ClearRulesOfResource
	m.idsAll = func() []string {
		var o []string
		for _, r := range flow.GetRules() {
			o = append(o, r.Resource+"/"+r.ID)
		}
		return o
	}
	m.idsRes = func(res string) []string {
		var o []string
		for _, r := range flow.GetRulesOfResource(res) {
			o = append(o, r.ID)
		}
		return o
	}
	m.probe = func(res string) probeRes {
		clk.AddMs(130000) // an empty window whatever the rule's statistic interval (up to 60 s; statistics may be kept across loads)
		p := probeRes{}
		for p.N < probeCap {
			if fe, fb := sentinel.Entry(res + "-ref"); fb == nil { // feed the resource associated rules refer to
				fe.Exit()
			}
			e, b := sentinel.Entry(res)
			if b != nil {
				p.Note = b.BlockType().String()
				if r, ok := b.TriggeredRule().(*flow.Rule); ok && r != nil {
					p.Blocker = r.ID
				}
				return p
			}
			p.N++
			e.Exit()
		}
		return p
	}
	return m
}

// ------------------------------------------------------------------ isolation

func isolationModule() *module {
	m := &module{name: "isolation", perRes: true, kinds: 5}
	m.setK = func(lib interface{}, k int) { lib.(*isolation.Rule).Threshold = uint32(k) }
	m.gen = func(rng *rand.Rand, res, id string, kind int) *R {
		r := &R{ID: id, Res: res, Valid: true}
		k := 1 + rng.Intn(8)
		var mk func() *isolation.Rule
		switch kind {
		case 0, 1:
			r.K = k
			mk = func() *isolation.Rule {
				return &isolation.Rule{ID: id, Resource: res, MetricType: isolation.Concurrency, Threshold: uint32(k)}
			}
		case 2:
			r.Valid, r.Why = false, "zero-threshold"
			mk = func() *isolation.Rule {
				return &isolation.Rule{ID: id, Resource: res, MetricType: isolation.Concurrency}
			}
		case 3:
			r.Valid, r.Why = false, "bad-metric-type"
			mk = func() *isolation.Rule { return &isolation.Rule{ID: id, Resource: res, MetricType: 1, Threshold: 1} }
		default:
			r.Valid, r.Why = false, "nil"
			mk = func() *isolation.Rule { return nil }
		}
		r.Mk = func() interface{} { return mk() }
		r.Lib = mk()
		return r
	}
	conv := func(rs []*R, fresh bool) []*isolation.Rule {
		out := make([]*isolation.Rule, 0, len(rs))
		for _, r := range rs {
			if fresh {
				out = append(out, r.Mk().(*isolation.Rule))
			} else {
				out = append(out, r.Lib.(*isolation.Rule))
			}
		}
		return out
	}
	m.loadAll = func(rs []*R, fresh bool) (bool, error) { return isolation.LoadRules(conv(rs, fresh)) }
	m.loadRes = func(res string, rs []*R, fresh bool) (bool, error) {
		return isolation.LoadRulesOfResource(res, conv(rs, fresh))
	}
	m.clearAll = isolation.ClearRules
	m.clearRes = isolation.ClearRulesOfResource
	m.idsAll = func() []string {
		var o []string
		for _, r := range isolation.GetRules() {
			o = append(o, r.Resource+"/"+r.ID)
		}
		return o
	}
	m.idsRes = func(res string) []string {
		var o []string
		for _, r := range isolation.GetRulesOfResource(res) {
			o = append(o, r.ID)
		}
		return o
	}
	m.probe = func(res string) probeRes {
		p := probeRes{}
		var held []*base.SentinelEntry
		for p.N < probeCap {
			e, b := sentinel.Entry(res)
			if b != nil {
				p.Note = b.BlockType().String()
				if r, ok := b.TriggeredRule().(*isolation.Rule); ok && r != nil {
					p.Blocker = r.ID
				}
				break
			}
			p.N++
			held = append(held, e)
		}
		for _, e := range held {
			e.Exit()
		}
		return p
	}
	return m
}

// ------------------------------------------------------------------ hotspot

func hotspotModule() *module {
	m := &module{name: "hotspot", perRes: true, kinds: 10}
	m.setK = func(lib interface{}, k int) { lib.(*hotspot.Rule).Threshold = int64(k) }
	m.gen = func(rng *rand.Rand, res, id string, kind int) *R {
		r := &R{ID: id, Res: res, Valid: true}
		k := 1 + rng.Intn(8)
		withItems := rng.Intn(2) == 0
		// semantic uniqueness (see flowModule) through a specific item for a value the probes never use; NOT through
		// ParamsMaxCapacity / DurationInSec, which decide whether the statistics of an old rule are re-used: with
		// few distinct capacities a modified rule and a new rule of one load both qualify for the old statistics
		uqKey := fmt.Sprintf("uq-%d", uid)
		capacity := int64(vk.PickI(rng, 0, 0, 5000))
		var mk func() *hotspot.Rule
		base := func() *hotspot.Rule {
			x := &hotspot.Rule{ID: id, Resource: res, MetricType: hotspot.Concurrency, ParamIndex: 0, Threshold: int64(k), ParamsMaxCapacity: capacity}
			x.SpecificItems = map[interface{}]int64{uqKey: 1000000}
			if withItems {
				x.SpecificItems["other"] = 100
			}
			return x
		}
		switch kind {
		case 0:
			r.K = k
			mk = base
			if rng.Intn(4) == 0 {
				// a deny-list entry: specific threshold 0 for the probe's value (blocks it at once) or for somebody else
				var deny func(key string) *R
				deny = func(key string) *R {
					x := &R{ID: id, Res: res, Valid: true, K: k, Zero: key == "probe-value"}
					x.Mk = func() interface{} {
						y := base()
						y.SpecificItems[key] = 0
						return y
					}
					x.Lib = x.Mk()
					other := "somebody-else"
					if key == other {
						other = "probe-value"
					}
					x.Alt = func() *R { return deny(other) }
					return x
				}
				return deny(vk.PickS(rng, "probe-value", "somebody-else"))
			}
		case 1:
			mk = func() *hotspot.Rule {
				x := base()
				x.MetricType = hotspot.QPS
				x.Threshold = 1e9
				x.DurationInSec = 1
				x.ControlBehavior = hotspot.ControlBehavior(rng.Intn(1))
				return x
			}
		default:
			r.Valid = false
			switch kind {
			case 2:
				r.Why = "negative-threshold"
				mk = func() *hotspot.Rule { x := base(); x.Threshold = -1; return x }
			case 3:
				r.Why = "negative-metric-type"
				mk = func() *hotspot.Rule { x := base(); x.MetricType = -1; x.Threshold = 0; return x }
			case 4:
				r.Why = "negative-control-behavior"
				mk = func() *hotspot.Rule { x := base(); x.ControlBehavior = -1; x.Threshold = 0; return x }
			case 5:
				r.Why = "qps-without-duration"
				mk = func() *hotspot.Rule { x := base(); x.MetricType = hotspot.QPS; x.Threshold = 0; return x }
			case 6:
				r.Why = "index-and-key"
				mk = func() *hotspot.Rule { x := base(); x.ParamIndex = 1; x.ParamKey = "k"; x.Threshold = 0; return x }
			case 7:
				r.Why = "negative-burst"
				mk = func() *hotspot.Rule { x := base(); x.BurstCount = -1; x.Threshold = 0; return x }
			case 8:
				r.Why = "negative-queueing"
				mk = func() *hotspot.Rule {
					x := base()
					x.ControlBehavior = hotspot.Throttling
					x.MaxQueueingTimeMs = -1
					x.Threshold = 0
					return x
				}
			default:
				r.Why = "nil"
				mk = func() *hotspot.Rule { return nil }
			}
		}
		r.Mk = func() interface{} { return mk() }
		r.Lib = mk()
		return r
	}
	conv := func(rs []*R, fresh bool) []*hotspot.Rule {
		out := make([]*hotspot.Rule, 0, len(rs))
		for _, r := range rs {
			if fresh {
				out = append(out, r.Mk().(*hotspot.Rule))
			} else {
				out = append(out, r.Lib.(*hotspot.Rule))
			}
		}
		return out
	}
	m.loadAll = func(rs []*R, fresh bool) (bool, error) { return hotspot.LoadRules(conv(rs, fresh)) }
	m.loadRes = func(res string, rs []*R, fresh bool) (bool, error) {
		return hotspot.LoadRulesOfResource(res, conv(rs, fresh))
	}
	m.clearAll = hotspot.ClearRules
	m.clearRes = hotspot.ClearRulesOfResource
	m.idsAll = func() []string {
		var o []string
		for _, r := range hotspot.GetRules() {
			o = append(o, r.Resource+"/"+r.ID)
		}
		return o
	}
	m.idsRes = func(res string) []string {
		var o []string
		for _, r := range hotspot.GetRulesOfResource(res) {
			o = append(o, r.ID)
		}
		return o
	}
	m.probe = func(res string) probeRes {
		p := probeRes{}
		var held []*base.SentinelEntry
		for p.N < probeCap {
			e, b := sentinel.Entry(res, sentinel.WithArgs("probe-value"))
			if b != nil {
				p.Note = b.BlockType().String()
				if r, ok := b.TriggeredRule().(*hotspot.Rule); ok && r != nil {
					p.Blocker = r.ID
				}
				break
			}
			p.N++
			held = append(held, e)
		}
		for _, e := range held {
			e.Exit()
		}
		return p
	}
	return m
}

// ------------------------------------------------------------------ circuit breaker

func cbRule(id, res string, k int) *cb.Rule {
	// RetryTimeoutMs is derived from the unique id number: semantic uniqueness (see flowModule); always far below the 20 s the probe waits
	var n uint32
	fmt.Sscanf(id, "r%d", &n)
	return &cb.Rule{Id: id, Resource: res, Strategy: cb.ErrorCount, RetryTimeoutMs: 1 + n%5000, MinRequestAmount: 0, StatIntervalMs: 1000, Threshold: float64(k)}
}

func cbProbe(res string, opts ...sentinel.EntryOption) probeRes {
	p := probeRes{}
	clk.AddMs(20000)
	// reset: any open breaker is past its 1 ms retry timeout; one successful probe closes them all
	e, b := sentinel.Entry(res, opts...)
	if b != nil {
		p.Note = "blocked-at-reset:" + b.BlockType().String()
		if r, ok := b.TriggeredRule().(*cb.Rule); ok && r != nil {
			p.Blocker = r.Id
		}
		p.N = -1
		return p
	}
	e.Exit()
	clk.AddMs(20000)
	clk.SetMs(clk.Ms() - clk.Ms()%1000 + 1001) // the 12 x 50 ms of the probe stay inside one 1000 ms statistic window
	for p.N < probeCap {
		e, b := sentinel.Entry(res, opts...)
		if b != nil {
			p.Note = b.BlockType().String()
			if r, ok := b.TriggeredRule().(*cb.Rule); ok && r != nil {
				p.Blocker = r.Id
			}
			return p
		}
		clk.AddMs(50)
		sentinel.TraceError(e, errors.New("probe error"))
		e.Exit()
		p.N++
	}
	return p
}

func cbModule() *module {
	m := &module{name: "circuitbreaker", perRes: true, kinds: 8}
	m.setK = func(lib interface{}, k int) {
		if x := lib.(*cb.Rule); x.Strategy == cb.ErrorCount {
			x.Threshold = float64(k)
		} else {
			x.MinRequestAmount = uint64(k)
		}
	}
	m.gen = func(rng *rand.Rand, res, id string, kind int) *R {
		r := &R{ID: id, Res: res, Valid: true}
		k := 2 + rng.Intn(7)
		var mk func() *cb.Rule
		switch kind {
		case 0:
			r.K = k
			mk = func() *cb.Rule { return cbRule(id, res, k) }
			if rng.Intn(3) == 0 {
				// slow-request breaker: every probe request takes 50 ms; with a limit of 20 ms all of them are slow and
				// the breaker trips at the k-th completion, with a limit of 100 ms none is and the rule is inert
				var slow func(limit uint64) *R
				slow = func(limit uint64) *R {
					x := &R{ID: id, Res: res, Valid: true}
					if limit < 50 {
						x.K = k
					}
					x.Mk = func() interface{} {
						y := cbRule(id, res, k)
						y.Strategy, y.Threshold, y.MinRequestAmount, y.MaxAllowedRtMs = cb.SlowRequestRatio, 1, uint64(k), limit
						return y
					}
					x.Lib = x.Mk()
					x.Alt = func() *R { return slow(120 - limit) }
					return x
				}
				return slow(uint64(vk.PickI(rng, 20, 20, 100)))
			}
		case 1:
			mk = func() *cb.Rule {
				x := cbRule(id, res, k)
				x.Strategy = cb.SlowRequestRatio
				x.MaxAllowedRtMs = 1e9
				x.Threshold = 1
				x.MinRequestAmount = 1e9
				return x
			}
		default:
			r.Valid = false
			switch kind {
			case 2:
				r.Why = "zero-retry-timeout"
				mk = func() *cb.Rule { x := cbRule(id, res, 1); x.RetryTimeoutMs = 0; return x }
			case 3:
				r.Why = "zero-stat-interval"
				mk = func() *cb.Rule { x := cbRule(id, res, 1); x.StatIntervalMs = 0; return x }
			case 4:
				r.Why = "negative-threshold"
				mk = func() *cb.Rule { x := cbRule(id, res, 1); x.Threshold = -1; return x }
			case 5:
				r.Why = "error-ratio-above-1"
				mk = func() *cb.Rule { x := cbRule(id, res, 1); x.Strategy = cb.ErrorRatio; x.Threshold = 1.5; return x }
			case 6:
				r.Why = "slow-ratio-above-1"
				mk = func() *cb.Rule {
					x := cbRule(id, res, 1)
					x.Strategy = cb.SlowRequestRatio
					x.Threshold = 1.5
					return x
				}
			default:
				r.Why = "nil"
				mk = func() *cb.Rule { return nil }
			}
		}
		r.Mk = func() interface{} { return mk() }
		r.Lib = mk()
		return r
	}
	conv := func(rs []*R, fresh bool) []*cb.Rule {
		out := make([]*cb.Rule, 0, len(rs))
		for _, r := range rs {
			if fresh {
				out = append(out, r.Mk().(*cb.Rule))
			} else {
				out = append(out, r.Lib.(*cb.Rule))
			}
		}
		return out
	}
	m.loadAll = func(rs []*R, fresh bool) (bool, error) { return cb.LoadRules(conv(rs, fresh)) }
	m.loadRes = func(res string, rs []*R, fresh bool) (bool, error) {
		return cb.LoadRulesOfResource(res, conv(rs, fresh))
	}
	m.clearAll = cb.ClearRules
	m.clearRes = cb.ClearRulesOfResource
	m.idsAll = func() []string {
		var o []string
		for _, r := range cb.GetRules() {
			o = append(o, r.Resource+"/"+r.Id)
		}
		return o
	}
	m.idsRes = func(res string) []string {
		var o []string
		for _, r := range cb.GetRulesOfResource(res) {
			o = append(o, r.Id)
		}
		return o
	}
	m.probe = func(res string) probeRes { return cbProbe(res) }
	return m
}

// ------------------------------------------------------------------ system (global rules: one pseudo resource)

const sysRes = "<system>"

func systemModule() *module {
	m := &module{name: "system", perRes: false, kinds: 6}
	m.setK = func(lib interface{}, k int) { lib.(*system.Rule).TriggerCount = float64(k) }
	m.gen = func(rng *rand.Rand, res, id string, kind int) *R {
		r := &R{ID: id, Res: sysRes, Valid: true}
		k := 2 + rng.Intn(7)
		var mk func() *system.Rule
		switch kind {
		case 0:
			r.K = k
			mk = func() *system.Rule {
				return &system.Rule{ID: id, MetricType: system.Concurrency, TriggerCount: float64(k), Strategy: system.NoAdaptive}
			}
		case 1:
			mt := []system.MetricType{system.Load, system.InboundQPS, system.AvgRT, system.CpuUsage}[rng.Intn(4)]
			tc := 1e9
			if mt == system.CpuUsage {
				tc = 1
			}
			mk = func() *system.Rule {
				return &system.Rule{ID: id, MetricType: mt, TriggerCount: tc, Strategy: system.NoAdaptive}
			}
		case 2:
			r.Valid, r.Why = false, "negative-trigger"
			mk = func() *system.Rule { return &system.Rule{ID: id, MetricType: system.Concurrency, TriggerCount: -1} }
		case 3:
			r.Valid, r.Why = false, "bad-metric-type"
			mk = func() *system.Rule {
				return &system.Rule{ID: id, MetricType: system.MetricTypeSize + 2, TriggerCount: 0}
			}
		case 4:
			r.Valid, r.Why = false, "cpu-above-1"
			mk = func() *system.Rule { return &system.Rule{ID: id, MetricType: system.CpuUsage, TriggerCount: 1.5} }
		default:
			r.Valid, r.Why = false, "nil"
			mk = func() *system.Rule { return nil }
		}
		r.Mk = func() interface{} { return mk() }
		r.Lib = mk()
		return r
	}
	conv := func(rs []*R, fresh bool) []*system.Rule {
		out := make([]*system.Rule, 0, len(rs))
		for _, r := range rs {
			if fresh {
				out = append(out, r.Mk().(*system.Rule))
			} else {
				out = append(out, r.Lib.(*system.Rule))
			}
		}
		return out
	}
	m.loadAll = func(rs []*R, fresh bool) (bool, error) { return system.LoadRules(conv(rs, fresh)) }
	m.clearAll = system.ClearRules
	m.idsAll = func() []string {
		var o []string
		for _, r := range system.GetRules() {
			o = append(o, sysRes+"/"+r.ID)
		}
		return o
	}
	m.unordered = true // rules are grouped by metric type in a map: order across types is not defined
	m.idsRes = func(string) []string {
		var o []string
		for _, r := range system.GetRules() {
			o = append(o, r.ID)
		}
		return o
	}
	m.probe = func(string) probeRes {
		p := probeRes{}
		var held []*base.SentinelEntry
		for p.N < probeCap {
			e, b := sentinel.Entry("c13-system-probe", sentinel.WithTrafficType(base.Inbound))
			if b != nil {
				p.Note = b.BlockType().String()
				if r, ok := b.TriggeredRule().(*system.Rule); ok && r != nil {
					p.Blocker = r.ID
				}
				break
			}
			p.N++
			held = append(held, e)
		}
		for _, e := range held {
			e.Exit()
		}
		return p
	}
	return m
}

// ------------------------------------------------------------------ outlier

var outlierChain *base.SlotChain

func outlierModule() *module {
	m := &module{name: "outlier", perRes: true, single: true, kinds: 7}
	m.setK = func(lib interface{}, k int) { lib.(*outlier.Rule).Rule.Threshold = float64(k) }
	m.gen = func(rng *rand.Rand, res, id string, kind int) *R {
		r := &R{ID: id, Res: res, Valid: true}
		k := 2 + rng.Intn(7)
		var mk func() *outlier.Rule
		switch kind {
		case 0, 1:
			r.K = k
			mk = func() *outlier.Rule { return &outlier.Rule{Rule: cbRule(id, res, k), MaxEjectionPercent: 1.0} }
		case 2:
			r.Valid, r.Why = false, "ejection-percent-above-1"
			mk = func() *outlier.Rule { return &outlier.Rule{Rule: cbRule(id, res, 1), MaxEjectionPercent: 1.5} }
		case 3:
			r.Valid, r.Why = false, "ejection-percent-negative"
			mk = func() *outlier.Rule { return &outlier.Rule{Rule: cbRule(id, res, 1), MaxEjectionPercent: -0.1} }
		case 4:
			r.Valid, r.Why = false, "invalid-embedded-breaker-rule"
			mk = func() *outlier.Rule {
				x := cbRule(id, res, 1)
				x.RetryTimeoutMs = 0
				return &outlier.Rule{Rule: x, MaxEjectionPercent: 1.0}
			}
		case 5:
			r.Valid, r.Why = false, "nil-embedded-breaker-rule"
			mk = func() *outlier.Rule { return &outlier.Rule{MaxEjectionPercent: 1.0} }
		default:
			r.Valid, r.Why = false, "nil"
			mk = func() *outlier.Rule { return nil }
		}
		r.Mk = func() interface{} { return mk() }
		r.Lib = mk()
		return r
	}
	conv := func(rs []*R, fresh bool) []*outlier.Rule {
		out := make([]*outlier.Rule, 0, len(rs))
		for _, r := range rs {
			if fresh {
				out = append(out, r.Mk().(*outlier.Rule))
			} else {
				out = append(out, r.Lib.(*outlier.Rule))
			}
		}
		return out
	}
	m.loadAll = func(rs []*R, fresh bool) (bool, error) { return outlier.LoadRules(conv(rs, fresh)) }
	m.loadRes = func(res string, rs []*R, fresh bool) (bool, error) {
		if len(rs) == 0 {
			return outlier.LoadRuleOfResource(res, nil)
		}
		return outlier.LoadRuleOfResource(res, conv(rs, fresh)[0])
	}
	m.clearAll = outlier.ClearRules
	m.clearRes = outlier.ClearRuleOfResource
	m.idsAll = func() []string {
		var o []string
		for _, r := range outlier.GetRules() {
			if r.Rule != nil {
				o = append(o, r.Resource+"/"+r.Id)
			} else {
				o = append(o, "?/<rule-without-breaker-rule>")
			}
		}
		return o
	}
	m.idsRes = func(res string) []string {
		var o []string
		for _, r := range outlier.GetRules() {
			if r.Rule != nil && r.Resource == res {
				o = append(o, r.Id)
			}
		}
		return o
	}
	m.probe = func(res string) probeRes {
		// count failing completions traced to one callee until that callee is reported for filtering
		p := probeRes{}
		clk.AddMs(20000)
		addr := "10.0.0.1:80"
		// reset the node's breaker if a previous probe opened it
		e, _ := sentinel.Entry(res, sentinel.WithSlotChain(outlierChain))
		if e != nil {
			sentinel.TraceCallee(e, addr)
			e.Exit()
		}
		clk.AddMs(20000)
		for p.N < probeCap {
			e, b := sentinel.Entry(res, sentinel.WithSlotChain(outlierChain))
			if b != nil {
				p.Note = "outlier-probe-blocked:" + b.BlockType().String()
				return p
			}
			fn := e.Context().FilterNodes()
			if len(fn) > 0 {
				p.Note = "filtered:" + strings.Join(fn, ",")
				p.Blocker = "*"
				e.Exit()
				return p
			}
			sentinel.TraceCallee(e, addr)
			sentinel.TraceError(e, errors.New("probe error"))
			e.Exit()
			p.N++
		}
		return p
	}
	return m
}

// ------------------------------------------------------------------ driver

type step struct {
	Op   string   `json:"op"`
	Res  string   `json:"res,omitempty"`
	List []string `json:"list,omitempty"` // "id:valid|why:K"
}

type caseDesc struct {
	Module string `json:"module"`
	Steps  []step `json:"steps"`
	FailAt int    `json:"fail_at,omitempty"`
	Note   string `json:"note,omitempty"`
}

func descR(rs []*R) []string {
	var o []string
	for _, r := range rs {
		s := r.Res + "/" + r.ID + ":"
		if r.Valid {
			s += fmt.Sprintf("valid:K=%d", r.K)
		} else {
			s += "INVALID(" + r.Why + ")"
		}
		o = append(o, s)
	}
	return o
}

func genList(m *module, rng *rand.Rand, ress []string, forRes string) []*R {
	var out []*R
	n := rng.Intn(5)
	if m.single && forRes != "" && n > 1 {
		n = 1
	}
	used := map[string]bool{}
	for i := 0; i < n; i++ {
		res := forRes
		if res == "" {
			res = ress[rng.Intn(len(ress))]
		}
		if m.single && used[res] {
			continue
		}
		used[res] = true
		kind := 0
		switch x := rng.Intn(10); {
		case x < 5:
			kind = 0
		case x < 7:
			kind = 1
		default:
			kind = 2 + rng.Intn(m.kinds-2)
		}
		out = append(out, m.gen(rng, res, nid("r"), kind))
	}
	return out
}

func expectProbe(rs []*R) (n int, blocker string) {
	for _, r := range rs {
		if r.Valid && r.Zero {
			return 0, r.ID
		}
	}
	n = probeCap
	for _, r := range rs {
		if r.Valid && r.K > 0 && r.K < n {
			n = r.K
		}
	}
	if n == probeCap {
		return probeCap, ""
	}
	for _, r := range rs {
		if r.Valid && r.K == n {
			return n, r.ID
		}
	}
	return n, ""
}

func runCase(idx int, m *module, rng *rand.Rand) *caseDesc {
	c := &caseDesc{Module: m.name}
	ress := []string{nid("c13-" + m.name + "-a"), nid("c13-" + m.name + "-b"), nid("c13-" + m.name + "-c")}
	if !m.perRes {
		ress = []string{sysRes}
	}
	model := map[string][]*R{}
	_ = m.clearAll()
	type lastLoad struct {
		whole bool
		res   string
		rs    []*R
		err   error
	}
	var last *lastLoad
	var hist []*lastLoad // every load so far that reported no error
	hasNil := func(rs []*R) string {
		for _, r := range rs {
			if r.Why == "nil" || r.Why == "nil-embedded-breaker-rule" {
				return ":list-with-nil-element"
			}
		}
		return ""
	}
	fail := func(i int, clause, msg string) {
		c.FailAt = i
		c.Note = msg
		run.Violation("C13/"+m.name+"/"+clause, fmt.Sprintf("[%s] step %d (%s): %s", m.name, i, c.Steps[i].Op, msg), c)
	}
	applyWhole := func(rs []*R) {
		for k := range model {
			delete(model, k)
		}
		for _, r := range rs {
			if !r.Valid {
				continue
			}
			if m.single {
				model[r.Res] = []*R{r} // the last valid rule for a resource wins... only one is generated
			} else {
				model[r.Res] = append(model[r.Res], r)
			}
		}
	}
	nsteps := 4 + rng.Intn(9)
	for i := 0; i < nsteps; i++ {
		var st step
		var rs []*R
		opk := rng.Intn(10)
		if !m.perRes && (opk >= 4 && opk < 8) {
			opk = 0
		}
		tag := ""
		var panicked bool
		var changed bool
		var err error
		switch {
		case opk < 4:
			st.Op = "LoadRules"
			rs = genList(m, rng, ress, "")
			st.List = descR(rs)
			c.Steps = append(c.Steps, st)
			tag = hasNil(rs)
			panicked = run.Guard("C13/"+m.name+"/load-panicked"+tag, c, func() { changed, err = m.loadAll(rs, false) })
			if panicked {
				c.FailAt = i
				return c
			}
			applyWhole(rs)
			last = &lastLoad{true, "", rs, err}
		case opk < 7:
			st.Op = "LoadRulesOfResource"
			st.Res = ress[rng.Intn(len(ress))]
			rs = genList(m, rng, ress, st.Res)
			st.List = descR(rs)
			c.Steps = append(c.Steps, st)
			tag = hasNil(rs)
			panicked = run.Guard("C13/"+m.name+"/load-panicked"+tag, c, func() { changed, err = m.loadRes(st.Res, rs, false) })
			if panicked {
				c.FailAt = i
				return c
			}
			var vs []*R
			for _, r := range rs {
				if r.Valid {
					vs = append(vs, r)
				}
			}
			if len(vs) == 0 {
				delete(model, st.Res)
			} else {
				model[st.Res] = vs
			}
			last = &lastLoad{false, st.Res, rs, err}
		case opk < 8:
			st.Op = "ClearRulesOfResource"
			st.Res = ress[rng.Intn(len(ress))]
			c.Steps = append(c.Steps, st)
			if run.Guard("C13/"+m.name+"/clear-panicked", c, func() { err = m.clearRes(st.Res) }) {
				return c
			}
			delete(model, st.Res)
			last = nil
		case opk < 9:
			st.Op = "ClearRules"
			c.Steps = append(c.Steps, st)
			if run.Guard("C13/"+m.name+"/clear-panicked", c, func() { err = m.clearAll() }) {
				return c
			}
			applyWhole(nil)
			last = nil
		case opk == 9 && len(hist) >= 2 && rng.Intn(3) == 0:
			// an EARLIER load again, in fresh objects: whatever came in between (a list with invalid rules, a clear, other
			// resources), it is the latest load now and must be in force and reported
			h := hist[rng.Intn(len(hist)-1)]
			st.Op = "ReloadEarlier"
			st.Res = h.res
			st.List = descR(h.rs)
			c.Steps = append(c.Steps, st)
			tag = hasNil(h.rs)
			panicked = run.Guard("C13/"+m.name+"/load-panicked"+tag, c, func() {
				if h.whole {
					changed, err = m.loadAll(h.rs, true)
				} else {
					changed, err = m.loadRes(h.res, h.rs, true)
				}
			})
			if panicked {
				c.FailAt = i
				return c
			}
			if h.whole {
				applyWhole(h.rs)
			} else {
				var vs []*R
				for _, r := range h.rs {
					if r.Valid {
						vs = append(vs, r)
					}
				}
				if len(vs) == 0 {
					delete(model, h.res)
				} else {
					model[h.res] = vs
				}
			}
			last = &lastLoad{h.whole, h.res, h.rs, err}
			run.Count("earlier_loads_repeated", 1)
		case opk == 9 && last != nil && last.err == nil && rng.Intn(2) == 0:
			// the latest load again with exactly one field of one valid rule changed (same id, fresh objects)
			var cand []int
			for j, r := range last.rs {
				if r.Valid && (r.Alt != nil || (r.K > 0 && m.setK != nil && !r.NoSetK && !r.Zero)) {
					cand = append(cand, j)
				}
			}
			if len(cand) == 0 {
				st.Op = "noop"
				c.Steps = append(c.Steps, st)
				break
			}
			j := cand[rng.Intn(len(cand))]
			old := last.rs[j]
			var nr *R
			if old.Alt != nil && (old.K == 0 || old.Zero || old.NoSetK || m.setK == nil || rng.Intn(2) == 0) {
				nr = old.Alt()
			} else {
				nk := 1 + (old.K+rng.Intn(6))%8
				if m.name == "system" || m.name == "circuitbreaker" || m.name == "outlier" {
					nk++
				}
				nr = &R{ID: old.ID, Res: old.Res, Valid: true, K: nk, Alt: nil}
				nr.Mk = func() interface{} { x := old.Mk(); m.setK(x, nk); return x }
				nr.Lib = nr.Mk()
			}
			rs = append([]*R(nil), last.rs...)
			rs[j] = nr
			st.Op = "ReloadWithOneFieldEdited"
			st.Res = last.res
			st.List = descR(rs)
			c.Steps = append(c.Steps, st)
			tag = hasNil(rs)
			whole, lres := last.whole, last.res
			panicked = run.Guard("C13/"+m.name+"/load-panicked"+tag, c, func() {
				if whole {
					changed, err = m.loadAll(rs, true)
				} else {
					changed, err = m.loadRes(lres, rs, true)
				}
			})
			if panicked {
				return c
			}
			if whole {
				applyWhole(rs)
			} else {
				var vs []*R
				for _, r := range rs {
					if r.Valid {
						vs = append(vs, r)
					}
				}
				if len(vs) == 0 {
					delete(model, lres)
				} else {
					model[lres] = vs
				}
			}
			last = &lastLoad{whole, lres, rs, err}
			run.Count("one_field_edits", 1)
		default:
			if last == nil {
				st.Op = "noop"
				c.Steps = append(c.Steps, st)
				break
			}
			st.Op = "IdenticalReload"
			st.Res = last.res
			st.List = descR(last.rs)
			c.Steps = append(c.Steps, st)
			tag = hasNil(last.rs)
			panicked = run.Guard("C13/"+m.name+"/load-panicked"+tag, c, func() {
				if last.whole {
					changed, err = m.loadAll(last.rs, true)
				} else {
					changed, err = m.loadRes(last.res, last.rs, true)
				}
			})
			if panicked {
				return c
			}
			// (a load that itself reported an error was not applied: nothing to be "unchanged" against)
			// (per-resource loads of an empty list - or, for the single-rule outlier API, of a nil rule -
			// are the documented "clear" operation, which always reports true)
			isClear := !last.whole && (len(last.rs) == 0 || (m.single && last.rs[0].Why == "nil"))
			if changed && last.err == nil && !isClear {
				cls := ""
				for _, r := range last.rs {
					if !r.Valid {
						cls = ":list-with-invalid-rules"
					}
				}
				fail(i, "identical-reload-reported-changed"+cls+tag, fmt.Sprintf("reloading field-for-field identical, freshly allocated rules %v returned changed=true", descR(last.rs)))
				return c
			}
			run.Count("identical_reloads", 1)
		}
		if last != nil && last.err == nil && (len(hist) == 0 || hist[len(hist)-1] != last) {
			hist = append(hist, last)
		}
		_ = err
		// getters
		var wantAll []string
		for res, rs := range model {
			for _, r := range rs {
				wantAll = append(wantAll, res+"/"+r.ID)
			}
		}
		var gotAll []string
		if run.Guard("C13/"+m.name+"/getter-panicked", c, func() { gotAll = m.idsAll() }) {
			return c
		}
		sort.Strings(wantAll)
		sort.Strings(gotAll)
		if strings.Join(wantAll, ",") != strings.Join(gotAll, ",") {
			fail(i, "getter-mismatch:GetRules"+tag, fmt.Sprintf("GetRules reports %v, expected the valid rules of the latest loads %v", gotAll, wantAll))
			return c
		}
		for _, res := range ress {
			var want []string
			for _, r := range model[res] {
				want = append(want, r.ID)
			}
			got := m.idsRes(res)
			if m.unordered {
				sort.Strings(want)
				sort.Strings(got)
			}
			if strings.Join(want, ",") != strings.Join(got, ",") {
				fail(i, "getter-mismatch:GetRulesOfResource"+tag, fmt.Sprintf("rules reported for %s: %v, expected (in order) %v", res, got, want))
				return c
			}
		}
		// probes: the touched resource and one other
		probeSet := []string{ress[rng.Intn(len(ress))]}
		if st.Res != "" && st.Res != probeSet[0] {
			probeSet = append(probeSet, st.Res)
		}
		for _, res := range probeSet {
			wn, wb := expectProbe(model[res])
			var p probeRes
			if run.Guard("C13/"+m.name+"/probe-panicked"+tag, c, func() { p = m.probe(res) }) {
				return c
			}
			okB := p.Blocker == wb || (p.Blocker == "*" && wb != "")
			if p.N != wn || !okB {
				cl := "enforced-mismatch"
				if len(model[res]) == 0 && p.N < probeCap {
					cl = "enforced-mismatch:rules-enforced-on-resource-without-valid-rules"
				}
				fail(i, cl+tag, fmt.Sprintf("probe on %s: %d admissions then blocked by %q (%s); the valid rules of the latest load %v imply %d admissions then %q", res, p.N, p.Blocker, p.Note, descR(model[res]), wn, wb))
				return c
			}
			run.Count("probes", 1)
			if wn < probeCap {
				run.Count("probes_binding", 1)
			}
		}
	}
	_ = m.clearAll()
	run.Count("steps", int64(len(c.Steps)))
	key := m.name
	for _, s := range c.Steps {
		key += s.Op + fmt.Sprint(len(s.List))
		for _, l := range s.List {
			key += l[strings.Index(l, ":"):]
		}
	}
	run.Distinct(vk.Hash(key))
	return c
}

func main() {
	sx.Quiet()
	run = vk.Start("C13", "seq")
	defer run.Finish()
	run.Rule("case = one module (flow, isolation, hotspot, circuitbreaker, system, outlier) x 4-12 steps of LoadRules / LoadRulesOfResource / ClearRules / ClearRulesOfResource / identical reload with freshly allocated equal rules / one-field edit / an EARLIER load repeated in fresh objects, lists of 0-4 rules mixing binding valid rules (unique id, probe signature K), inert valid rules, every field-wise invalidity class and nil elements; after each step GetRules / GetRulesOfResource (ids, order) and probe traffic (admissions until first block + triggered rule) vs. the model; distinct by (module, op sequence, validity classes, K values).")
	run.Assume("callers pass freshly allocated rule objects and never mutate them", "per-resource loads only carry rules of that resource", "rules with an unsupported enum value that the module's own validity check accepts are not generated", "outlier rules carry no RecoveryCheckFunc (func values are never DeepEqual)")
	clk = vclock.New(1900000000000)
	outlierChain = sentinel.BuildDefaultSlotChain()
	outlierChain.AddRuleCheckSlot(outlier.DefaultSlot)
	outlierChain.AddStatSlot(outlier.DefaultMetricStatSlot)
	mods := []*module{flowModule(), isolationModule(), hotspotModule(), cbModule(), systemModule(), outlierModule()}
	if only := os.Getenv("VERIF_C13_MODULE"); only != "" {
		var f []*module
		for _, m := range mods {
			if m.name == only {
				f = append(f, m)
			}
		}
		mods = f
	}
	n := run.N(150, 6000)
	for i := 0; i < n*len(mods); i++ {
		if run.Skip(i) {
			continue
		}
		m := mods[i%len(mods)]
		run.Begin(i, map[string]interface{}{"module": m.name})
		var c *caseDesc
		run.Guard("C13/"+m.name+"/panic-in-case", map[string]string{"module": m.name}, func() { c = runCase(i, m, run.Rand(i)) })
		if i < 6 && c != nil {
			run.Sample(c)
		}
	}
}
