// C07 monitor: system-protection rules gate inbound traffic only, by the
// configured predicate evaluated on the monitor's own log of inbound traffic.
package main

import (
	"errors"
	"fmt"
	"math/rand"

	sentinel "github.com/alibaba/sentinel-golang/api"
	"github.com/alibaba/sentinel-golang/core/base"
	"github.com/alibaba/sentinel-golang/core/stat"
	"github.com/alibaba/sentinel-golang/core/system"
	"github.com/alibaba/sentinel-golang/core/system_metric"

	"verif/ref"
	"verif/sx"
	"verif/vclock"
	"verif/vk"
)

type ruleD struct {
	ID      string  `json:"id"`
	Metric  int     `json:"metric"` // 0 load 1 avgRT 2 concurrency 3 inboundQPS 4 cpu
	Trigger float64 `json:"trigger"`
	BBR     bool    `json:"bbr"`
	Valid   bool    `json:"valid"`
	// Strat: the raw strategy value when the rule is not BBR: -1 (NoAdaptive), 0 (field left unset) or another
	// number - every value but BBR means "hard cut-off"
	Strat int `json:"strategy_raw,omitempty"`
}

type op struct {
	K    string  `json:"k"` // in | out | end | adv | load | cpu
	Dt   uint64  `json:"dt,omitempty"`
	Pick int     `json:"pick,omitempty"`
	V    float64 `json:"v,omitempty"`
	// reload: the complete new rule list (a small edit of the current one: one strategy flipped, one trigger
	// changed, a rule dropped / added, or the identical list in fresh objects)
	Rules []ruleD `json:"rules,omitempty"`
}

type caseDesc struct {
	Rules  []ruleD `json:"rules"`
	Ops    []op    `json:"ops"`
	FailAt int     `json:"fail_at,omitempty"`
}

var run *vk.Run
var clk *vclock.Clock
var inb = ref.NewWin(20, 10000) // model of the process-global inbound node
var inflight int64

func genCase(rng *rand.Rand) *caseDesc {
	c := &caseDesc{}
	nextID := 0
	genRule := func() ruleD {
		r := ruleD{ID: fmt.Sprintf("s%d", nextID), Metric: rng.Intn(5), BBR: rng.Intn(2) == 0, Valid: true, Strat: vk.PickI(rng, -1, -1, 0, 0, 2, -2)}
		nextID++
		switch r.Metric {
		case 0:
			r.Trigger = vk.PickF(rng, 0.5, 1, 4)
		case 1:
			r.Trigger = vk.PickF(rng, 0, 1, 5, 20, 100)
		case 2:
			r.Trigger = vk.PickF(rng, 0, 1, 2, 3, 5)
		case 3:
			r.Trigger = vk.PickF(rng, 0, 1, 2, 3.5, 6, 10)
		case 4:
			r.Trigger = vk.PickF(rng, 0.2, 0.5, 0.9, 1)
		}
		if rng.Intn(8) == 0 {
			r.Valid = false
			switch rng.Intn(3) {
			case 0:
				r.Trigger = -1
			case 1:
				r.Metric = 5 + rng.Intn(3)
				r.Trigger = 0
			default:
				r.Metric = 4
				r.Trigger = 1.5
			}
		}
		return r
	}
	for i, n := 0, rng.Intn(4); i < n; i++ {
		c.Rules = append(c.Rules, genRule())
	}
	cur := append([]ruleD(nil), c.Rules...)
	for i, n := 0, 30+rng.Intn(120); i < n; i++ {
		var o op
		switch k := rng.Intn(21); {
		case k == 20 && rng.Intn(3) == 0:
			// the library's per-resource statistic nodes are dropped (exported housekeeping call): the inbound totals
			// the system rules read are not per-resource state and must be unaffected
			o.K = "drop-resource-nodes"
		case k == 20:
			o.K = "reload"
			nl := append([]ruleD(nil), cur...)
			switch e := rng.Intn(6); {
			case e == 0 && len(nl) > 0: // only the strategy of one rule changes
				j := rng.Intn(len(nl))
				nl[j].BBR = !nl[j].BBR
			case e == 1 && len(nl) > 0: // only the trigger of one rule changes
				j := rng.Intn(len(nl))
				if nl[j].Valid {
					nl[j].Trigger = nl[j].Trigger*vk.PickF(rng, 0.5, 2) + vk.PickF(rng, 0, 0.25)
					if nl[j].Metric == 4 && nl[j].Trigger > 1 {
						nl[j].Trigger = 1
					}
				}
			case e == 2 && len(nl) > 0:
				j := rng.Intn(len(nl))
				nl = append(nl[:j], nl[j+1:]...)
			case e == 3 && len(nl) < 4:
				nl = append(nl, genRule())
			case e == 4:
				nl = nil
				for j, m := 0, rng.Intn(3); j < m; j++ {
					nl = append(nl, genRule())
				}
			default: // identical list, fresh objects
			}
			o.Rules = nl
			if o.Rules == nil {
				o.Rules = []ruleD{}
			}
			cur = append([]ruleD(nil), nl...)
		case k < 8:
			o.K = "in"
		case k < 10:
			o.K = "out"
		case k < 15:
			o.K = "end"
			o.Pick = rng.Intn(1 << 20)
		case k < 18:
			o.K = "adv"
			o.Dt = []uint64{0, 1, 3, 10, 40, 250, 499, 500, 501, 1000, 1500, 11000}[rng.Intn(12)]
		case k < 19:
			o.K = "load"
			o.V = vk.PickF(rng, 0, 0.4, 0.5, 0.6, 1, 1.01, 3.9, 4, 4.1, 9)
		default:
			o.K = "cpu"
			o.V = vk.PickF(rng, 0, 0.19, 0.2, 0.21, 0.5, 0.51, 0.9, 0.95, 1)
		}
		c.Ops = append(c.Ops, o)
	}
	return c
}

type live struct {
	e       *base.SentinelEntry
	inbound bool
	start   uint64
}

var caseNo int

var errCompleted = errors.New("c07: request failed")

func runCase(idx int, c *caseDesc) {
	caseNo++
	inForce := c.Rules
	loadRules := func(l []ruleD) {
		rules := []*system.Rule{}
		for _, r := range l {
			st := system.AdaptiveStrategy(r.Strat)
			if r.BBR {
				st = system.BBR
			}
			rules = append(rules, &system.Rule{ID: r.ID, MetricType: system.MetricType(r.Metric), TriggerCount: r.Trigger, Strategy: st})
		}
		system.LoadRules(rules)
		inForce = l
	}
	loadRules(c.Rules)
	defer system.ClearRules()
	load, cpu := 0.0, 0.0
	system_metric.SetSystemLoad(0)
	system_metric.SetSystemCpuUsage(0)
	var lives []live
	defer func() {
		for _, l := range lives {
			finish(l)
		}
		clk.AddMs(20000)
	}()
	sawP, sawB := false, false
	trace := []byte{}
	fail := func(i int, clause, msg string) {
		c.FailAt = i
		run.Violation("C07/"+clause, fmt.Sprintf("op %d (%s) at t=%d: %s", i, c.Ops[i].K, clk.Ms(), msg), c)
	}
	for i, o := range c.Ops {
		switch o.K {
		case "adv":
			clk.AddMs(o.Dt)
		case "drop-resource-nodes":
			stat.ResetResourceNodeMap()
		case "reload":
			loadRules(o.Rules)
			run.Count("reloads", 1)
		case "load":
			load = o.V
			system_metric.SetSystemLoad(o.V)
		case "cpu":
			cpu = o.V
			system_metric.SetSystemCpuUsage(o.V)
		case "end":
			if len(lives) == 0 {
				continue
			}
			k := o.Pick % len(lives)
			l := lives[k]
			lives = append(lives[:k], lives[k+1:]...)
			finish(l)
		case "out":
			if len(lives) >= 8 {
				continue
			}
			e, b := sentinel.Entry(fmt.Sprintf("c07-out-%d", caseNo), sentinel.WithTrafficType(base.Outbound))
			if b != nil {
				fail(i, "outbound-blocked", fmt.Sprintf("outbound request blocked: %v (rule %v)", b, b.TriggeredRule()))
				return
			}
			lives = append(lives, live{e, false, clk.Ms()})
		case "in":
			if len(lives) >= 8 {
				continue
			}
			now := clk.Ms()
			// predicate per rule from the monitor's own log
			qps := float64(inb.Sum(ref.EvPass, now, 1000))
			comp := inb.Sum(ref.EvComplete, now, 1000)
			avgRt := 0.0
			if comp > 0 {
				avgRt = float64(inb.Sum(ref.EvRt, now, 1000) / comp)
			}
			minRt := float64(inb.MinRt(now, 1000))
			if minRt < 1 {
				minRt = 1
			}
			maxComplete := float64(inb.MaxBucket(ref.EvComplete, now, 1000)) * 2
			bbrOK := !(inflight > 1 && float64(inflight) > maxComplete*minRt/1000.0) // capacity not exceeded
			violated := map[string]string{}
			for _, r := range inForce {
				if !r.Valid {
					continue
				}
				switch r.Metric {
				case 0:
					if load > r.Trigger && (!r.BBR || !bbrOK) {
						violated[r.ID] = fmt.Sprintf("load %v > %v (bbr=%v, capacity ok=%v)", load, r.Trigger, r.BBR, bbrOK)
					}
				case 1:
					if avgRt >= r.Trigger {
						violated[r.ID] = fmt.Sprintf("avg rt %v >= %v", avgRt, r.Trigger)
					}
				case 2:
					if float64(inflight) >= r.Trigger {
						violated[r.ID] = fmt.Sprintf("in-flight %d >= %v", inflight, r.Trigger)
					}
				case 3:
					if qps >= r.Trigger {
						violated[r.ID] = fmt.Sprintf("inbound qps %v >= %v", qps, r.Trigger)
					}
				case 4:
					if cpu > r.Trigger && (!r.BBR || !bbrOK) {
						violated[r.ID] = fmt.Sprintf("cpu %v > %v (bbr=%v, capacity ok=%v)", cpu, r.Trigger, r.BBR, bbrOK)
					}
				}
			}
			e, b := sentinel.Entry(fmt.Sprintf("c07-in-%d", caseNo), sentinel.WithTrafficType(base.Inbound))
			if (e == nil) == (b == nil) {
				fail(i, "outcome:both-or-neither", "Entry returned both or neither")
				return
			}
			if b != nil {
				sawB = true
				trace = append(trace, 'b')
				inb.Add(now, ref.EvBlock, 1)
				if b.BlockType() != base.BlockTypeSystemFlow {
					fail(i, "block-type", fmt.Sprintf("blocked with %s", b.BlockType()))
					return
				}
				r, ok := b.TriggeredRule().(*system.Rule)
				if len(violated) == 0 {
					fail(i, "blocked-without-violated-rule", fmt.Sprintf("inbound request blocked by %v although no loaded rule is violated (qps %v, in-flight %d, avg rt %v, load %v, cpu %v, capacity ok %v)", b.TriggeredRule(), qps, inflight, avgRt, load, cpu, bbrOK))
					return
				}
				if !ok || violated[r.ID] == "" {
					fail(i, "triggered-rule-not-violated", fmt.Sprintf("triggered rule %v is not among the violated rules %v", b.TriggeredRule(), violated))
					return
				}
			} else {
				sawP = true
				trace = append(trace, 'p')
				if len(violated) > 0 {
					fail(i, "admitted-despite-violated-rule", fmt.Sprintf("inbound request admitted although %v", violated))
					e.Exit()
					return
				}
				inflight++
				inb.Add(now, ref.EvPass, 1)
				inb.Conc(now, int32(inflight))
				lives = append(lives, live{e, true, now})
			}
		}
	}
	run.Count("ops", int64(len(c.Ops)))
	if sawP && sawB {
		run.Distinct(vk.Hash(string(trace), c.Rules))
	}
}

func finish(l live) {
	now := clk.Ms()
	if (l.start+now)%3 == 0 {
		// a third of the completions carry an error: their response time and completion count on the inbound totals all the same
		l.e.Exit(base.WithError(errCompleted))
	} else {
		l.e.Exit()
	}
	if l.inbound {
		inflight--
		inb.Add(now, ref.EvRt, int64(now-l.start))
		inb.Add(now, ref.EvComplete, 1)
	}
}

func main() {
	sx.Quiet()
	run = vk.Start("C07", "seq")
	defer run.Finish()
	run.Rule("case = 0-3 system rules over the five metric types and both strategies (some invalid), 30-150 ops: inbound / outbound requests (overlapping), completions, clock advances around bucket boundaries, injected load / cpu readings around the triggers, reloads of a slightly edited rule list (one strategy flipped, one trigger changed, rule dropped / added, identical list); for every inbound request the set of violated rules is computed from the monitor's own log (aligned-window reference of the inbound totals) and the decision must be block iff that set is non-empty, with a triggered rule from the set; outbound requests must never be blocked; distinct by (decision trace, rules) with a pass and a block.")
	run.Assume("only system rules are loaded (passing this stage = admitted)", "rule iteration order across metric types is a map order: any violated rule is accepted as the triggered one", "virtual clock later than the real time at which the process-global inbound node was created")
	clk = vclock.New(1900000000000)
	n := run.N(400, 12000)
	for i := 0; i < n; i++ {
		if run.Skip(i) {
			continue
		}
		c := genCase(run.Rand(i))
		run.Begin(i, c)
		if i < 2 {
			cc := *c
			if len(cc.Ops) > 12 {
				cc.Ops = cc.Ops[:12]
			}
			run.Sample(cc)
		}
		run.Guard("C07/panic", c, func() { runCase(i, c) })
	}
}
