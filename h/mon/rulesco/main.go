// rulesco: the "rule switches are atomic" clause of C15 under the cooperative scheduler. The rule managers of
// flow / isolation / hotspot are compiled against the shimmed locks (every Lock / RLock acquisition is a scheduling
// point) and the code the rule checks run per rule against the shimmed atomics, so that rule updates (whole-set
// load, per-resource load, per-resource clear) are interleaved with each other and with requests between and
// inside the critical sections. Every rule list of the churned resource R is [gate (pass-all, unchanged), deny-g
// (block-all, names its generation g), allow (pass-all, unchanged)]; the resource S keeps the same always-block
// list in every load.
//
//	(1) a request on S is always blocked by deny-S;
//	(2) a request on R is decided by ONE list that could have been in force during the request: blocked by
//	    deny-g of an admissible generation g, or passed only if "no rules" (a clear) is admissible;
//	(3) at quiescence the reported rules equal the enforced ones (getter vs. probe request) and are the outcome
//	    of one of the updates that finished last;
//	(4) everybody terminates, nobody panics.
package main

import (
	"errors"
	"fmt"
	"math/rand"
	"os"
	"sync/atomic"

	sentinel "github.com/alibaba/sentinel-golang/api"
	"github.com/alibaba/sentinel-golang/core/base"
	cb "github.com/alibaba/sentinel-golang/core/circuitbreaker"
	"github.com/alibaba/sentinel-golang/core/flow"
	"github.com/alibaba/sentinel-golang/core/hotspot"
	"github.com/alibaba/sentinel-golang/core/isolation"
	"github.com/alibaba/sentinel-golang/core/system"

	"verif/coop"
	"verif/sx"
	"verif/vatomic"
	"verif/vclock"
	"verif/vk"
)

// ver: generation number of R's list (0 = initial, -1 = no rules)
type mod struct {
	name    string
	loadAll func(R, S string, ver int)
	loadRes func(res string, ver int) // ver -1 = clear
	ids     func(res string) []string
	entry   func(res string) (*base.SentinelEntry, *base.BlockError)
	blocker func(b *base.BlockError) string
	clear   func()
	// prepare is called once per case before the initial load (isolation: hold one entry per resource)
	prepare func(R, S string) func()
	// afterLoad is called once after the initial load (breakers: trip the always-open breaker)
	afterLoad func(R, S string)
	// deny names the blocking rule of a generation (default: deny-<res>-<generation>)
	deny func(res string, ver int) string
	// noClear: the blocking rule's state does not survive a clear (an open breaker would be re-created closed)
	noClear bool
	// global: the module has one rule set for the whole process (system rules): no per-resource operations, no second
	// resource
	global bool
}

var curMod *mod

func denyID(res string, ver int) string {
	if curMod != nil && curMod.deny != nil {
		return curMod.deny(res, ver)
	}
	return fmt.Sprintf("deny-%s-%d", res[len(res)-1:], ver)
}

func flowMod() *mod {
	list := func(res string, ver int) []*flow.Rule {
		if ver < 0 {
			return nil
		}
		mk := func(id string, thr float64, uq uint32) *flow.Rule {
			return &flow.Rule{ID: id, Resource: res, TokenCalculateStrategy: flow.Direct, ControlBehavior: flow.Reject, Threshold: thr, MaxQueueingTimeMs: uq}
		}
		return []*flow.Rule{mk("gate", 1e9, 0), mk(denyID(res, ver), 0, uint32(1+ver)), mk("allow", 2e9, 0)}
	}
	m := &mod{name: "flow"}
	m.loadAll = func(R, S string, ver int) { flow.LoadRules(append(list(R, ver), list(S, 0)...)) }
	m.loadRes = func(res string, ver int) {
		if ver < 0 {
			flow.ClearRulesOfResource(res)
		} else {
			flow.LoadRulesOfResource(res, list(res, ver))
		}
	}
	m.ids = func(res string) (o []string) {
		for _, r := range flow.GetRulesOfResource(res) {
			o = append(o, r.ID)
		}
		return
	}
	m.entry = func(res string) (*base.SentinelEntry, *base.BlockError) { return sentinel.Entry(res) }
	m.blocker = func(b *base.BlockError) string {
		if r, ok := b.TriggeredRule().(*flow.Rule); ok && r != nil {
			return r.ID
		}
		return "?"
	}
	m.clear = func() { flow.ClearRules() }
	return m
}

func isoMod() *mod {
	list := func(res string, ver int) []*isolation.Rule {
		if ver < 0 {
			return nil
		}
		mk := func(id string, thr uint32) *isolation.Rule {
			return &isolation.Rule{ID: id, Resource: res, MetricType: isolation.Concurrency, Threshold: thr}
		}
		// one entry per resource is held for the whole case: a threshold of 1 blocks everything else
		return []*isolation.Rule{mk("gate", 4000000000), mk(denyID(res, ver), 1), mk("allow", 3000000000)}
	}
	m := &mod{name: "isolation"}
	m.loadAll = func(R, S string, ver int) { isolation.LoadRules(append(list(R, ver), list(S, 0)...)) }
	m.loadRes = func(res string, ver int) {
		if ver < 0 {
			isolation.ClearRulesOfResource(res)
		} else {
			isolation.LoadRulesOfResource(res, list(res, ver))
		}
	}
	m.ids = func(res string) (o []string) {
		for _, r := range isolation.GetRulesOfResource(res) {
			o = append(o, r.ID)
		}
		return
	}
	m.entry = func(res string) (*base.SentinelEntry, *base.BlockError) { return sentinel.Entry(res) }
	m.blocker = func(b *base.BlockError) string {
		if r, ok := b.TriggeredRule().(*isolation.Rule); ok && r != nil {
			return r.ID
		}
		return "?"
	}
	m.clear = func() { isolation.ClearRules() }
	m.prepare = func(R, S string) func() {
		e1, _ := sentinel.Entry(R)
		e2, _ := sentinel.Entry(S)
		return func() {
			if e1 != nil {
				e1.Exit()
			}
			if e2 != nil {
				e2.Exit()
			}
		}
	}
	return m
}

func hotMod() *mod {
	list := func(res string, ver int) []*hotspot.Rule {
		if ver < 0 {
			return nil
		}
		mk := func(id string, thr int64, uq int) *hotspot.Rule {
			// (QPS rules: their verdict for threshold 0 / 1e9 does not depend on counters. Concurrency rules would
			// not do: an entry admitted under one list and exited under another decrements a counter it never
			// incremented, which is outside what C15 promises and would blur the oracle)
			x := &hotspot.Rule{ID: id, Resource: res, MetricType: hotspot.QPS, ControlBehavior: hotspot.Reject, ParamIndex: 0, Threshold: thr, DurationInSec: 1}
			if uq > 0 {
				x.SpecificItems = map[interface{}]int64{fmt.Sprintf("uq-%d", uq): 1}
			}
			return x
		}
		return []*hotspot.Rule{mk("gate", 1e9, 0), mk(denyID(res, ver), 0, 1+ver), mk("allow", 2e9, 0)}
	}
	m := &mod{name: "hotspot"}
	m.loadAll = func(R, S string, ver int) { hotspot.LoadRules(append(list(R, ver), list(S, 0)...)) }
	m.loadRes = func(res string, ver int) {
		if ver < 0 {
			hotspot.ClearRulesOfResource(res)
		} else {
			hotspot.LoadRulesOfResource(res, list(res, ver))
		}
	}
	m.ids = func(res string) (o []string) {
		for _, r := range hotspot.GetRulesOfResource(res) {
			o = append(o, r.ID)
		}
		return
	}
	m.entry = func(res string) (*base.SentinelEntry, *base.BlockError) {
		return sentinel.Entry(res, sentinel.WithArgs("v"))
	}
	m.blocker = func(b *base.BlockError) string {
		if r, ok := b.TriggeredRule().(*hotspot.Rule); ok && r != nil {
			return r.ID
		}
		return "?"
	}
	m.clear = func() { hotspot.ClearRules() }
	return m
}

// breakers: the blocking rule is one UNCHANGED rule whose breaker is open for the whole case (retry timeout of an hour,
// frozen clock); the rule in front of it changes with every generation, so every load rebuilds the list around the
// kept breaker. A request that passes saw a list without it.
func cbMod() *mod {
	u := func(res string) string { return "U-" + res[len(res)-1:] }
	list := func(res string, ver int) []*cb.Rule {
		if ver < 0 {
			return nil
		}
		inert := func(id string, retry uint32) *cb.Rule {
			return &cb.Rule{Id: id, Resource: res, Strategy: cb.ErrorCount, RetryTimeoutMs: retry, MinRequestAmount: 1, StatIntervalMs: 10000, Threshold: 1e9}
		}
		return []*cb.Rule{inert("gate", uint32(1000+ver)),
			{Id: u(res), Resource: res, Strategy: cb.ErrorCount, RetryTimeoutMs: 3600000, MinRequestAmount: 1, StatIntervalMs: 10000, Threshold: 1},
			inert("allow", 500)}
	}
	m := &mod{name: "circuitbreaker", noClear: true}
	m.deny = func(res string, ver int) string { return u(res) }
	m.loadAll = func(R, S string, ver int) { cb.LoadRules(append(list(R, ver), list(S, 0)...)) }
	m.loadRes = func(res string, ver int) {
		if ver < 0 {
			cb.ClearRulesOfResource(res)
		} else {
			cb.LoadRulesOfResource(res, list(res, ver))
		}
	}
	m.ids = func(res string) (o []string) {
		for _, r := range cb.GetRulesOfResource(res) {
			o = append(o, r.Id)
		}
		return
	}
	m.entry = func(res string) (*base.SentinelEntry, *base.BlockError) { return sentinel.Entry(res) }
	m.blocker = func(b *base.BlockError) string {
		if r, ok := b.TriggeredRule().(*cb.Rule); ok && r != nil {
			return r.Id
		}
		return "?"
	}
	m.clear = func() { cb.ClearRules() }
	m.afterLoad = func(R, S string) {
		for _, res := range []string{R, S} {
			if e, b := sentinel.Entry(res); b == nil {
				sentinel.TraceError(e, errors.New("trip"))
				e.Exit()
			}
		}
	}
	return m
}

// system rules: one process-wide set; the block-all rule is an inbound-concurrency trigger of 0
func sysMod() *mod {
	list := func(ver int) []*system.Rule {
		if ver < 0 {
			return nil
		}
		return []*system.Rule{{ID: "gate", MetricType: system.InboundQPS, TriggerCount: 1e12, Strategy: system.NoAdaptive},
			{ID: fmt.Sprintf("deny-R-%d", ver), MetricType: system.Concurrency, TriggerCount: 0, Strategy: system.NoAdaptive},
			{ID: "allow", MetricType: system.Load, TriggerCount: 1e12, Strategy: system.NoAdaptive}}
	}
	m := &mod{name: "system", global: true}
	m.loadAll = func(R, S string, ver int) { system.LoadRules(list(ver)) }
	m.loadRes = func(res string, ver int) {
		if ver < 0 {
			system.ClearRules()
		} else {
			system.LoadRules(list(ver))
		}
	}
	m.ids = func(res string) []string {
		// (the getter flattens a map: canonical order gate, deny, allow)
		var gate, deny, allow, rest []string
		for _, r := range system.GetRules() {
			switch {
			case r.ID == "gate":
				gate = append(gate, r.ID)
			case r.ID == "allow":
				allow = append(allow, r.ID)
			case len(r.ID) > 4 && r.ID[:4] == "deny":
				deny = append(deny, r.ID)
			default:
				rest = append(rest, r.ID)
			}
		}
		return append(append(append(gate, deny...), rest...), allow...)
	}
	m.entry = func(res string) (*base.SentinelEntry, *base.BlockError) {
		return sentinel.Entry(res, sentinel.WithTrafficType(base.Inbound))
	}
	m.blocker = func(b *base.BlockError) string {
		if r, ok := b.TriggeredRule().(*system.Rule); ok && r != nil {
			return r.ID
		}
		return "?"
	}
	m.clear = func() { system.ClearRules() }
	return m
}

type stepD struct {
	K   string `json:"k"`             // all | res | clear | other | req-R | req-S | get
	Ver int    `json:"ver,omitempty"` // generation loaded by all / res
}
type caseDesc struct {
	Module  string    `json:"module"`
	Workers [][]stepD `json:"workers"`
	Strat   string    `json:"strategy"`
	Choices []byte    `json:"choices,omitempty"`
	Note    string    `json:"note,omitempty"`
}

type ival struct{ beg, end int }
type loadRec struct {
	ival
	ver int
}
type reqRec struct {
	ival
	res     string
	passed  bool
	blocker string
}

var run *vk.Run
var caseNo int
var mods = []*mod{flowMod(), isoMod(), hotMod(), cbMod(), sysMod()}

func gen(rng *rand.Rand) *caseDesc {
	gm := mods[rng.Intn(len(mods))]
	if only := os.Getenv("VERIF_RULESCO_MODULE"); only != "" { // (run for another property: that property's module only)
		for _, m := range mods {
			if m.name == only {
				gm = m
			}
		}
	}
	c := &caseDesc{Module: gm.name}
	ver := 0
	upd := func() stepD {
		ver++
		switch rng.Intn(6) {
		case 0, 1:
			return stepD{K: "all", Ver: ver}
		case 2, 3:
			return stepD{K: "res", Ver: ver}
		case 4:
			if gm.noClear {
				return stepD{K: "res", Ver: ver}
			}
			return stepD{K: "clear"}
		default:
			if gm.global {
				return stepD{K: "all", Ver: ver}
			}
			return stepD{K: "other", Ver: ver}
		}
	}
	nu := 1 + rng.Intn(2)
	for u := 0; u < nu; u++ {
		var w []stepD
		for i, n := 0, 1+rng.Intn(2); i < n; i++ {
			w = append(w, upd())
		}
		c.Workers = append(c.Workers, w)
	}
	for q, nq := 0, 1+rng.Intn(2); q < nq; q++ {
		var w []stepD
		for i, n := 0, 1+rng.Intn(3); i < n; i++ {
			k := vk.PickS(rng, "req-R", "req-R", "req-S", "get")
			if gm.global && k == "req-S" {
				k = "req-R"
			}
			w = append(w, stepD{K: k})
		}
		c.Workers = append(c.Workers, w)
	}
	return c
}

func execute(c *caseDesc, ch coop.Chooser) {
	var m *mod
	for _, x := range mods {
		if x.name == c.Module {
			m = x
		}
	}
	caseNo++
	R, S, T := fmt.Sprintf("rco-%d-R", caseNo), fmt.Sprintf("rco-%d-S", caseNo), fmt.Sprintf("rco-%d-T", caseNo)
	m.clear()
	defer m.clear()
	if m.prepare != nil {
		defer m.prepare(R, S)()
	}
	curMod = m
	m.loadAll(R, S, 0)
	if m.afterLoad != nil {
		m.afterLoad(R, S)
	}
	seq := 0
	loads := []loadRec{{ival{-2, -1}, 0}}
	var reqs []reqRec
	var getBad string
	fns := make([]func(), len(c.Workers))
	for w := range c.Workers {
		w := w
		fns[w] = func() {
			for _, st := range c.Workers[w] {
				coop.Yield("step")
				seq++
				beg := seq
				switch st.K {
				case "all":
					m.loadAll(R, S, st.Ver)
					seq++
					loads = append(loads, loadRec{ival{beg, seq}, st.Ver})
				case "res":
					m.loadRes(R, st.Ver)
					seq++
					loads = append(loads, loadRec{ival{beg, seq}, st.Ver})
				case "clear":
					m.loadRes(R, -1)
					seq++
					loads = append(loads, loadRec{ival{beg, seq}, -1})
				case "other":
					m.loadRes(T, st.Ver)
				case "get":
					// the reported list of R is empty or a complete [gate, deny-g, allow]
					ids := m.ids(R)
					if !(len(ids) == 0 || (len(ids) == 3 && ids[0] == "gate" && ids[2] == "allow")) {
						getBad = fmt.Sprintf("GetRulesOfResource reported %v during the updates", ids)
					}
				case "req-R", "req-S":
					res := R
					if st.K == "req-S" {
						res = S
					}
					e, b := m.entry(res)
					seq++
					r := reqRec{ival: ival{beg, seq}, res: res, passed: b == nil}
					if b != nil {
						r.blocker = m.blocker(b)
					} else {
						e.Exit()
					}
					reqs = append(reqs, r)
				}
			}
		}
	}
	r := coop.Run(ch, coop.Options{Adversarial: 3000, FairTail: 20000}, fns...)
	if r.Stuck {
		run.Abort("scheduler: a worker did not reach a yield point (wall-clock guard); the process is abandoned")
		return
	}
	c.Choices = r.Choices
	sig := "C15/coop:" + m.name + ":"
	if len(r.NonTerminated) > 0 {
		run.Violation(sig+"non-termination", fmt.Sprintf("workers %v did not finish within 20000 fair steps (dead-lock between rule updates / requests?)", r.NonTerminated), c)
		return
	}
	for w, p := range r.Panics {
		run.Violation(sig+"panic", fmt.Sprintf("worker %d panicked: %s", w, p), c)
		return
	}
	if getBad != "" {
		run.Violation(sig+"getter-saw-partial-list", getBad, c)
		return
	}
	admissible := func(q ival) map[int]bool {
		adm := map[int]bool{}
		for i, v := range loads {
			if v.beg >= q.end {
				continue
			}
			superseded := false
			for j, o := range loads {
				if j != i && o.end < q.beg && o.beg > v.end {
					superseded = true
				}
			}
			if !superseded {
				adm[v.ver] = true
			}
		}
		return adm
	}
	for _, q := range reqs {
		if q.res == S {
			if q.passed || q.blocker != denyID(S, 0) {
				c.Note = fmt.Sprintf("request on the un-churned resource: passed=%v blocker=%q", q.passed, q.blocker)
				run.Violation(sig+"unchanged-resource-affected", c.Note+"; its list [gate, "+denyID(S, 0)+", allow] is the same in every load", c)
				return
			}
			continue
		}
		adm := admissible(q.ival)
		if q.passed {
			if !adm[-1] {
				c.Note = fmt.Sprintf("a request on R passed although every list that could have been in force during it (generations %v) blocks", keys(adm))
				run.Violation(sig+"torn-switch:request-passed", c.Note, c)
				return
			}
			continue
		}
		ok := false
		for g := range adm {
			if g >= 0 && q.blocker == denyID(R, g) {
				ok = true
			}
		}
		if !ok {
			c.Note = fmt.Sprintf("a request on R was blocked by %q, the lists that could have been in force during it are generations %v", q.blocker, keys(adm))
			run.Violation(sig+"torn-switch:foreign-rule", c.Note, c)
			return
		}
	}
	// quiescence: reported == enforced, and the outcome of an update that was not superseded
	ids := m.ids(R)
	e, b := m.entry(R)
	if e != nil {
		e.Exit()
	}
	fin := admissible(ival{seq + 1, seq + 2})
	switch {
	case len(ids) == 0:
		if b != nil {
			run.Violation(sig+"reported!=enforced", fmt.Sprintf("after all updates finished no rule is reported for R but a request is blocked by %q", m.blocker(b)), c)
			return
		}
		if !fin[-1] {
			run.Violation(sig+"final-state-of-no-update", fmt.Sprintf("after all updates finished R has no rules, but the updates that finished last loaded generations %v", keys(fin)), c)
			return
		}
	case len(ids) == 3:
		if b == nil || m.blocker(b) != ids[1] {
			bl := "nothing (passed)"
			if b != nil {
				bl = m.blocker(b)
			}
			run.Violation(sig+"reported!=enforced", fmt.Sprintf("after all updates finished the reported rules of R are %v but a request is blocked by %s", ids, bl), c)
			return
		}
		okFin := false
		for g := range fin {
			if g >= 0 && ids[1] == denyID(R, g) {
				okFin = true
			}
		}
		if !okFin {
			run.Violation(sig+"final-state-of-no-update", fmt.Sprintf("after all updates finished R reports %v, but the updates that finished last loaded generations %v", ids, keys(fin)), c)
			return
		}
	default:
		run.Violation(sig+"reported-list-partial", fmt.Sprintf("after all updates finished the reported rules of R are %v", ids), c)
		return
	}
	// a whole-set load issued during the case, issued again now that everything is quiet, must be in force afterwards
	// (whatever the manager remembers as "the rules loaded last" must be what it enforces)
	again := -1
	for _, w := range c.Workers {
		for _, st := range w {
			if st.K == "all" {
				again = st.Ver
			}
		}
	}
	if again >= 0 {
		m.loadAll(R, S, again)
		ids = m.ids(R)
		e, b = m.entry(R)
		if e != nil {
			e.Exit()
		}
		if b == nil || m.blocker(b) != denyID(R, again) || len(ids) != 3 || ids[1] != denyID(R, again) {
			bl := "nothing (passed)"
			if b != nil {
				bl = m.blocker(b)
			}
			run.Violation(sig+"reload-after-quiescence-not-in-force", fmt.Sprintf("after all updates finished, the whole-set load of generation %d was issued again: R reports %v and a request is blocked by %s", again, ids, bl), c)
			return
		}
	}
	run.Count("requests_checked", int64(len(reqs)))
	run.Count("updates", int64(len(loads)-1))
	run.Distinct(vk.Hash(c.Module, c.Workers, string(r.Choices)))
}

func keys(m map[int]bool) []int {
	var o []int
	for k := range m {
		o = append(o, k)
	}
	for i := 1; i < len(o); i++ {
		for j := i; j > 0 && o[j] < o[j-1]; j-- {
			o[j], o[j-1] = o[j-1], o[j]
		}
	}
	return o
}

func main() {
	sx.Quiet()
	vclock.New(1900000000000)
	run = vk.Start("C15", "coop")
	defer run.Finish()
	run.Rule("schedule = (module flow / isolation / hotspot / system / circuitbreaker (an unchanged open breaker behind a rule that changes with every load); 1-2 updaters x 1-2 updates of resource R: whole-set load, per-resource load, per-resource clear, load of an unrelated resource; 1-2 callers x 1-3 requests on R / on the un-churned always-block resource S / getter calls; choice sequence at every lock acquisition of the module's rule manager (and parameter caches) and every shimmed atomic access of the per-rule checks) under random walk, PCT d<=3 and bounded DFS; requests decided by one admissible list, S always blocked by its own rule, reported == enforced and final state = outcome of an update that finished last, termination. distinct = distinct (case, interleaving).")
	run.Assume("generation g is admissible for a request unless another update both began after g's update returned and returned before the request began", "lock acquisitions and the shimmed atomics are the scheduling points")
	{
		c0 := atomic.LoadUint64(&vatomic.Count)
		flow.LoadRulesOfResource("rco-calib", []*flow.Rule{{ID: "c", Resource: "rco-calib", Threshold: 1}})
		flow.ClearRulesOfResource("rco-calib")
		if atomic.LoadUint64(&vatomic.Count) == c0 {
			run.Inconclusive("observability: loading rules executed no shimmed lock acquisition (was the manager moved out of core/flow/rule_manager.go?) - no interleaving can be explored")
			return
		}
	}
	n := run.N(2500, 150000)
	for i := 0; i < n; i++ {
		if run.Skip(i) {
			continue
		}
		rng := run.Rand(i)
		c := gen(rng)
		var ch coop.Chooser
		if i%4 == 0 {
			c.Strat = "random"
			ch = &coop.Random{R: rng}
		} else {
			d := 1 + rng.Intn(3)
			c.Strat = fmt.Sprintf("pct-d%d", d)
			ch = coop.NewPCT(rng, len(c.Workers), d, 60)
		}
		run.Eval(i)
		if i < 2 {
			run.Sample(c)
		}
		execute(c, ch)
	}
	if !run.Replaying() {
		for j, nd := 0, run.N(3, 40); j < nd; j++ {
			c := gen(run.Rand(7_000_000 + j))
			// one updater and one caller
			c.Workers = [][]stepD{c.Workers[0], c.Workers[len(c.Workers)-1]}
			c.Strat = "dfs-2-preemptions"
			d := &coop.DFS{MaxPreempt: 2}
			cnt := 0
			for d.Next() && cnt < 15000 {
				cnt++
				run.Eval(7_000_000 + j)
				cc := *c
				execute(&cc, d)
			}
			run.Count("dfs_schedules", int64(cnt))
		}
	}
}
