// chainco: the k-concurrent-callers clause of C02 (QPS reject rule) and C04
// (isolation rule). Real goroutines call api.Entry on a chain built by the
// public api.BuildDefaultSlotChain() plus monitor-owned yield slots before the
// rule-check phase and between the rule-check phase and the statistic phase;
// the cooperative scheduler decides the interleaving at exactly that
// granularity ("admission-path granularity" of the property).
package main

import (
	"fmt"
	"math"
	"math/rand"
	"os"

	sentinel "github.com/alibaba/sentinel-golang/api"
	"github.com/alibaba/sentinel-golang/core/base"
	"github.com/alibaba/sentinel-golang/core/flow"
	"github.com/alibaba/sentinel-golang/core/hotspot"
	"github.com/alibaba/sentinel-golang/core/isolation"

	"verif/coop"
	"verif/sx"
	"verif/vclock"
	"verif/vk"
)

// shared monitor state; only one worker runs at a time so plain fields are fine
type mon struct {
	inside    map[int]bool // workers between pre-check and end of stat phase
	maxInside int
	// tokens (C02) / entries (C04, C06 per argument value) recorded by the statistic phase
	recorded map[string]int64
	// admitted by the rule-check phase but statistic phase not yet run
	pending map[string]int64
	peak    int64
	// per worker: value of recorded/pending when its rule check ran (worker woke from pre-check)
	snapRec, snapPend map[int]int64
	amount            map[int]int64  // what the current request of worker w adds when admitted
	val               map[int]string // argument value of the current request of worker w ("" for C02 / C04)
	// C04 / C06: entries whose Exit call is in progress (the exit path is interleaved at atomic-access granularity,
	// so until Exit returns the unit may or may not have been released): per value, and the figure when the
	// rule check of worker w ran
	exiting  map[string]int64
	snapExit map[int]int64
	inExit   map[int]bool
}

var M *mon
var prop string

type preSlot struct{}

func (preSlot) Order() uint32 { return 0 }
func (preSlot) Check(ctx *base.EntryContext) *base.TokenResult {
	w := coop.Me()
	if w < 0 {
		return nil
	}
	M.inside[w] = true
	if len(M.inside) > M.maxInside {
		M.maxInside = len(M.inside)
	}
	coop.Yield("pre-check")
	// the rule checks of this request run now, atomically w.r.t. the other workers
	M.snapRec[w] = M.recorded[M.val[w]]
	M.snapPend[w] = M.pending[M.val[w]]
	M.snapExit[w] = M.exiting[M.val[w]]
	return nil
}

type postSlot struct{}

func (postSlot) Order() uint32 { return math.MaxUint32 }
func (postSlot) Check(ctx *base.EntryContext) *base.TokenResult {
	w := coop.Me()
	if w < 0 {
		return nil
	}
	// reached only when no rule-check slot blocked: the request is admitted
	M.pending[M.val[w]] += M.amount[w]
	coop.Yield("between-check-and-stat")
	return nil
}

type afterStat struct{}

func (afterStat) Order() uint32 { return math.MaxUint32 }
func (afterStat) OnEntryPassed(ctx *base.EntryContext) {
	w := coop.Me()
	if w < 0 {
		return
	}
	v := M.val[w]
	M.pending[v] -= M.amount[w]
	M.recorded[v] += M.amount[w]
	if M.recorded[v]-M.exiting[v] > M.peak {
		M.peak = M.recorded[v] - M.exiting[v]
	}
	delete(M.inside, w)
}
func (afterStat) OnEntryBlocked(ctx *base.EntryContext, be *base.BlockError) {
	if w := coop.Me(); w >= 0 {
		delete(M.inside, w)
	}
}
func (afterStat) OnCompleted(ctx *base.EntryContext) {
	if coop.Me() >= 0 && prop != "C02" {
		v, _ := ctx.Input.Attachments["val"].(string)
		M.recorded[v]--
	}
}

type req struct {
	Batch uint32 `json:"b"`
	Exit  bool   `json:"exit"`          // C04 / C06: exit the entry afterwards (after a yield)
	Val   string `json:"val,omitempty"` // C06: the hot-parameter value
}

type caseDesc struct {
	T       float64 `json:"threshold"`
	Pre     int64   `json:"pre"` // tokens / entries admitted sequentially before the race
	Workers [][]req `json:"workers"`
	Strat   string  `json:"strategy"`
	Choices []byte  `json:"choices,omitempty"`
	Note    string  `json:"note,omitempty"`
}

var run *vk.Run
var probeNote string
var chain *base.SlotChain
var caseNo int

func genCase(rng *rand.Rand) *caseDesc {
	c := &caseDesc{}
	k := 2 + rng.Intn(3)
	switch prop {
	case "C02":
		c.T = vk.PickF(rng, 1, 2, 3, 3.5, 5, 8)
	case "C06":
		c.T = float64(vk.PickI(rng, 1, 2, 2, 3))
	default:
		c.T = float64(vk.PickI(rng, 1, 2, 3, 4, 6))
	}
	c.Pre = int64(rng.Intn(int(c.T) + 1))
	if prop == "C06" {
		c.Pre = int64(rng.Intn(int(c.T))) // warm-up entries for value "a", held until a worker releases them
	}
	for w := 0; w < k; w++ {
		var rs []req
		nreq := 1 + rng.Intn(2)
		if prop == "C06" {
			nreq = 1 + rng.Intn(3)
		}
		for i := 0; i < nreq; i++ {
			r := req{Batch: 1}
			if prop == "C02" {
				r.Batch = vk.PickU32(rng, 1, 1, 1, 2, 3)
			} else {
				r.Batch = vk.PickU32(rng, 1, 1, 1, 1, 2)
				r.Exit = rng.Intn(2) == 0
				if prop == "C06" {
					r.Batch = 1
					r.Val = vk.PickS(rng, "a", "a", "a", "b")
					r.Exit = rng.Intn(3) != 0
				}
			}
			rs = append(rs, r)
		}
		c.Workers = append(c.Workers, rs)
	}
	return c
}

type outcome struct {
	w, i           int
	admitted       bool
	rec, pend, amt int64
	exiting        int64
	blockType      base.BlockType
	bothOrNeither  bool
}

// execute runs the case under the chooser and returns the outcomes in completion order.
func execute(c *caseDesc, ch coop.Chooser) (*coop.Result, []outcome, string) {
	caseNo++
	probeNote = ""
	res := fmt.Sprintf("cc-%s-%d", prop, caseNo)
	if prop == "C02" {
		flow.LoadRules([]*flow.Rule{{ID: "r", Resource: res, TokenCalculateStrategy: flow.Direct, ControlBehavior: flow.Reject, Threshold: c.T}})
		defer flow.ClearRules()
	} else if prop == "C06" {
		hotspot.LoadRules([]*hotspot.Rule{{ID: "r", Resource: res, MetricType: hotspot.Concurrency, ParamIndex: 0, Threshold: int64(c.T)}})
		defer hotspot.ClearRules()
	} else {
		isolation.LoadRules([]*isolation.Rule{{ID: "r", Resource: res, MetricType: isolation.Concurrency, Threshold: uint32(c.T)}})
		defer isolation.ClearRules()
	}
	M = &mon{inside: map[int]bool{}, snapRec: map[int]int64{}, snapPend: map[int]int64{}, amount: map[int]int64{}, val: map[int]string{},
		recorded: map[string]int64{}, pending: map[string]int64{}, exiting: map[string]int64{}, snapExit: map[int]int64{}, inExit: map[int]bool{}}
	// rule checks and the statistic phase of Entry stay atomic w.r.t. the other workers (the oracle's snapshot is
	// exact there); the exit path is interleaved at every shimmed atomic access
	coop.AtomicFilter = func() bool { return M.inExit[coop.Me()] }
	defer func() { coop.AtomicFilter = nil }()
	exit := func(w int, e *base.SentinelEntry, v string) {
		M.exiting[v]++
		M.inExit[w] = true
		e.Exit()
		M.inExit[w] = false
		M.exiting[v]--
	}
	entryOpts := func(r req) []sentinel.EntryOption {
		o := []sentinel.EntryOption{sentinel.WithSlotChain(chain), sentinel.WithBatchCount(r.Batch)}
		if prop == "C06" {
			o = append(o, sentinel.WithArgs(r.Val), sentinel.WithAttachment("val", r.Val))
		}
		return o
	}
	preVal := ""
	if prop == "C06" {
		preVal = "a"
	}
	// sequential warm-up outside the scheduler (coop.Me() == -1: the monitor slots stay passive)
	var held []*base.SentinelEntry
	for i := int64(0); i < c.Pre; i++ {
		e, b := sentinel.Entry(res, entryOpts(req{Batch: 1, Val: preVal})...)
		if b != nil {
			return nil, nil, "warm-up request blocked"
		}
		if prop == "C02" {
			e.Exit()
		} else {
			held = append(held, e)
		}
	}
	M.recorded[preVal] = c.Pre
	M.peak = c.Pre
	var outs []outcome
	fns := make([]func(), len(c.Workers))
	var toExit [][]*base.SentinelEntry = make([][]*base.SentinelEntry, len(c.Workers))
	for w := range c.Workers {
		w := w
		fns[w] = func() {
			for i, r := range c.Workers[w] {
				amt := int64(1)
				if prop == "C02" {
					amt = int64(r.Batch)
				}
				M.amount[w] = amt
				M.val[w] = r.Val
				e, b := sentinel.Entry(res, entryOpts(r)...)
				o := outcome{w: w, i: i, admitted: b == nil, rec: M.snapRec[w], pend: M.snapPend[w], exiting: M.snapExit[w], amt: int64(r.Batch), bothOrNeither: (e == nil) == (b == nil)}
				if b != nil {
					o.blockType = b.BlockType()
				}
				outs = append(outs, o)
				if prop == "C06" && len(held) > 0 && w == 0 {
					coop.Yield("pre-release")
					h := held[len(held)-1]
					held = held[:len(held)-1]
					exit(w, h, preVal)
				}
				if e != nil {
					if prop == "C02" || r.Exit {
						coop.Yield("pre-exit")
						if prop == "C02" {
							e.Exit()
						} else {
							exit(w, e, r.Val)
						}
					} else {
						toExit[w] = append(toExit[w], e)
					}
				}
			}
		}
	}
	r := coop.Run(ch, coop.Options{Adversarial: 400, FairTail: 2000}, fns...)
	for _, es := range toExit {
		for _, e := range es {
			e.Exit()
		}
	}
	for _, e := range held {
		e.Exit()
	}
	coop.AtomicFilter = nil
	// quiescence: every unit must have been released exactly once - a sequential probe admits exactly the threshold
	if prop != "C02" && !r.Stuck && len(r.NonTerminated) == 0 && len(r.Panics) == 0 {
		vals := []string{""}
		if prop == "C06" {
			vals = []string{"a", "b"}
		}
		for _, v := range vals {
			var hs []*base.SentinelEntry
			n := 0
			for ; n < int(c.T)+3; n++ {
				e, b := sentinel.Entry(res, entryOpts(req{Batch: 1, Val: v})...)
				if b != nil {
					break
				}
				hs = append(hs, e)
			}
			for _, e := range hs {
				e.Exit()
			}
			if n != int(c.T) {
				probeNote = fmt.Sprintf("after every entry was exited the resource admitted %d entries for value %q, threshold %v", n, v, c.T)
			}
		}
	}
	return r, outs, ""
}

func check(c *caseDesc, r *coop.Result, outs []outcome) {
	if r.Stuck {
		run.Abort("scheduler: a worker did not reach a yield point (wall-clock guard); the process is abandoned")
		return
	}
	c.Choices = r.Choices
	if len(r.NonTerminated) > 0 {
		run.Violation(prop+"/coop:non-termination", fmt.Sprintf("workers %v did not finish under fair scheduling", r.NonTerminated), c)
		return
	}
	for w, p := range r.Panics {
		run.Violation(prop+"/coop:panic", fmt.Sprintf("worker %d panicked: %s", w, p), c)
		return
	}
	if probeNote != "" {
		c.Note = probeNote
		run.Violation(prop+"/coop:conservation:capacity-after-quiescence", probeNote, c)
		return
	}
	maxAmt := int64(0)
	admittedTotal := c.Pre
	for _, o := range outs {
		if o.amt > maxAmt {
			maxAmt = o.amt
		}
		if o.bothOrNeither {
			run.Violation(prop+"/coop:outcome-both-or-neither", "Entry returned both or neither", c)
			return
		}
		lower := float64(o.rec - o.exiting) // what the statistic had recorded when the check ran (less the entries whose Exit was in progress)
		upper := float64(o.rec + o.pend)    // plus requests admitted but not yet recorded
		need := float64(o.amt)
		if prop == "C02" && o.admitted {
			admittedTotal += o.amt
		}
		switch {
		case o.admitted && lower+need > c.T:
			c.Note = fmt.Sprintf("worker %d request %d admitted with %v already recorded + %v > %v", o.w, o.i, lower, need, c.T)
			run.Violation(prop+"/coop:over-admission-vs-recorded", c.Note, c)
			return
		case !o.admitted && upper+need <= c.T:
			c.Note = fmt.Sprintf("worker %d request %d rejected with recorded %v + in-path %v + %v <= %v", o.w, o.i, o.rec, o.pend, need, c.T)
			run.Violation(prop+"/coop:spurious-rejection", c.Note, c)
			return
		}
		want := base.BlockTypeFlow
		if prop == "C04" {
			want = base.BlockTypeIsolation
		} else if prop == "C06" {
			want = base.BlockTypeHotSpotParamFlow
		}
		if prop == "C06" {
			need = 1
		}
		if !o.admitted && o.blockType != want {
			run.Violation(prop+"/coop:block-type", fmt.Sprintf("blocked with %s", o.blockType), c)
			return
		}
	}
	k := int64(M.maxInside)
	if k < 1 {
		k = 1
	}
	if prop == "C02" {
		if float64(admittedTotal) > c.T+float64((k-1)*maxAmt) {
			c.Note = fmt.Sprintf("admitted %d tokens in one window, threshold %v, k_inside=%d, max batch %d", admittedTotal, c.T, k, maxAmt)
			run.Violation("C02/coop:excess-above-(k-1)*maxbatch", c.Note, c)
			return
		}
	} else {
		if float64(M.peak) > c.T+float64(k-1) {
			c.Note = fmt.Sprintf("peak in-flight %d, threshold %v, k_inside=%d", M.peak, c.T, k)
			run.Violation(prop+"/coop:inflight-above-N+k-1", c.Note, c)
			return
		}
	}
	run.Max("max_k_inside", k)
	if k > 1 {
		run.Count("schedules_with_overlap_in_admission_path", 1)
	}
	if float64(admittedTotal) > c.T || float64(M.peak) > c.T {
		run.Count("schedules_with_permitted_excess", 1)
	}
	run.Distinct(vk.Hash(c.T, c.Pre, c.Workers, string(r.Choices)))
}

func main() {
	sx.Quiet()
	prop = os.Getenv("VERIF_PROP")
	if prop != "C04" && prop != "C06" {
		prop = "C02"
	}
	run = vk.Start(prop, "coop")
	defer run.Finish()
	run.Rule("schedule = (threshold, warm-up, 2-4 workers x 1-2 requests, choice sequence at the yield points pre-check / between-check-and-statistic / pre-exit and, for C04 / C06, at every shimmed atomic access of the exit path) under random walk, PCT(d<=3) and bounded DFS (<=3 pre-emptions, 2-worker cases); per request the decision must be consistent with [recorded, recorded+in-path] at the instant its rule check ran, and the total excess bounded by (k_inside-1)*max batch; after the run a sequential probe must admit exactly the threshold (every unit released exactly once); distinct = distinct (case, interleaving).")
	run.Assume("frozen virtual clock inside one statistic window", "interleaving granularity = the two chain yield points (rule checks and the statistic phase of one request are atomic w.r.t. other workers)")
	vclock.New(1700000000123)
	chain = sentinel.BuildDefaultSlotChain()
	chain.AddRuleCheckSlot(preSlot{})
	chain.AddRuleCheckSlot(postSlot{})
	chain.AddStatSlot(afterStat{})
	n := run.N(3000, 150000)
	for i := 0; i < n; i++ {
		if run.Skip(i) {
			continue
		}
		rng := run.Rand(i)
		c := genCase(rng)
		nw := len(c.Workers)
		var ch coop.Chooser
		switch i % 3 {
		case 0:
			c.Strat = "random"
			ch = &coop.Random{R: rng}
		default:
			d := 1 + rng.Intn(3)
			c.Strat = fmt.Sprintf("pct-d%d", d)
			ch = coop.NewPCT(rng, nw, d, 12)
		}
		run.Eval(i)
		if i < 2 {
			run.Sample(c)
		}
		r, outs, err := execute(c, ch)
		if err != "" {
			run.Violation(prop+"/coop:setup", err, c)
			continue
		}
		check(c, r, outs)
	}
	// bounded DFS over 2-worker cases
	if !run.Replaying() {
		nd := run.N(6, 60)
		for j := 0; j < nd; j++ {
			rng := run.Rand(1_000_000 + j)
			c := genCase(rng)
			c.Workers = c.Workers[:2]
			c.Strat = "dfs-3-preemptions"
			d := &coop.DFS{MaxPreempt: 3}
			cnt := 0
			for d.Next() && cnt < 20000 {
				cnt++
				run.Eval(1_000_000 + j)
				cc := *c
				r, outs, err := execute(&cc, d)
				if err != "" {
					break
				}
				check(&cc, r, outs)
			}
			run.Count("dfs_schedules", int64(cnt))
			run.Count("dfs_cases_exhausted", 1)
		}
	}
}
