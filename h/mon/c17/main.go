// C17 monitor: metric log writer / searcher. The monitor keeps the list of
// accepted writes, parses the retained files itself, compares every query (on one
// long-lived searcher and on fresh ones) with the expectation, checks the file
// count bound, and enumerates truncation points of the last data file and of its
// index file (crash mid-write).
package main

import (
	"fmt"
	"math/rand"
	"os"
	"path/filepath"
	"regexp"
	"sort"
	"strconv"
	"strings"

	"github.com/alibaba/sentinel-golang/core/base"
	"github.com/alibaba/sentinel-golang/core/config"
	"github.com/alibaba/sentinel-golang/core/log/metric"

	"verif/sx"
	"verif/vclock"
	"verif/vk"
)

type wr struct {
	DSec  int      `json:"dsec"` // seconds relative to the previous write (negative = stale)
	Items []string `json:"items"`
	N     []uint64 `json:"n"`
}

type caseDesc struct {
	MaxSize  uint64 `json:"max_size"`
	MaxFiles uint32 `json:"max_files"`
	T0       uint64 `json:"t0_ms"`
	Writes   []wr   `json:"writes"`
	Note     string `json:"note,omitempty"`
}

var run *vk.Run
var clk *vclock.Clock
var scratch string
var caseNo int

type rec struct {
	fat string
	sec uint64
	res string
}

func fatOf(it *base.MetricItem) string {
	s, _ := it.ToFatString()
	return s
}

var fileRe = regexp.MustCompile(`\.(\d{4}-\d{2}-\d{2})(?:\.(\d+))?$`)

func dataFiles(dir, baseName string) []string {
	ents, _ := os.ReadDir(dir)
	type f struct {
		p, date string
		n       int
	}
	var fs []f
	for _, e := range ents {
		name := e.Name()
		if !strings.HasPrefix(name, baseName) || strings.HasSuffix(name, ".idx") {
			continue
		}
		m := fileRe.FindStringSubmatch(name)
		if m == nil {
			continue
		}
		n := 0
		if m[2] != "" {
			n, _ = strconv.Atoi(m[2])
		}
		fs = append(fs, f{filepath.Join(dir, name), m[1], n})
	}
	sort.Slice(fs, func(a, b int) bool {
		if fs[a].date != fs[b].date {
			return fs[a].date < fs[b].date
		}
		return fs[a].n < fs[b].n
	})
	var out []string
	for _, x := range fs {
		out = append(out, x.p)
	}
	return out
}

func genCase(rng *rand.Rand) *caseDesc {
	c := &caseDesc{MaxSize: []uint64{200, 300, 500, 1000, 4096}[rng.Intn(5)], MaxFiles: uint32(1 + rng.Intn(5))}
	day := uint64(1900000000000/86400000) * 86400000
	switch rng.Intn(3) {
	case 0:
		c.T0 = day + 86400000 - uint64(1+rng.Intn(20))*1000 + uint64(rng.Intn(1000)) // shortly before (UTC/local) midnight
	default:
		c.T0 = day + uint64(rng.Intn(80000))*1000 + uint64(rng.Intn(1000))
	}
	resNames := []string{"a", "bb", "GET:/x/y", "res with space", "ünï", "a"}
	if rng.Intn(6) == 0 {
		// a very long (URL-style) resource name: lines longer than any reasonable read buffer
		resNames = append(resNames, "GET:/"+strings.Repeat("segment/", 1100+rng.Intn(200)))
	}
	n := 8 + rng.Intn(40)
	for i := 0; i < n; i++ {
		w := wr{}
		switch k := rng.Intn(20); {
		case k < 3:
			w.DSec = 0
		case k < 12:
			w.DSec = 1
		case k < 14:
			w.DSec = 2 + rng.Intn(4)
		case k < 15:
			w.DSec = 60 + rng.Intn(100)
		case k < 17:
			w.DSec = -(1 + rng.Intn(3))
		default:
			w.DSec = 1
		}
		for j, m := 0, 1+rng.Intn(5); j < m; j++ {
			w.Items = append(w.Items, resNames[rng.Intn(len(resNames))])
			w.N = append(w.N, uint64(rng.Intn(100000)))
		}
		c.Writes = append(c.Writes, w)
	}
	return c
}

type expectation struct {
	retained []rec // in file order
}

func (e *expectation) byTime(b, en uint64, res string) []string {
	var out []string
	for _, r := range e.retained {
		if r.sec >= b/1000 && r.sec <= en/1000 && (res == "" || r.res == res) {
			out = append(out, r.fat)
		}
	}
	return out
}

func (e *expectation) fromTime(b uint64, n uint32) []string {
	var out []string
	var last uint64
	for _, r := range e.retained {
		if r.sec < b/1000 {
			continue
		}
		if uint32(len(out)) >= n && r.sec != last {
			break
		}
		out = append(out, r.fat)
		last = r.sec
	}
	return out
}

func fats(items []*base.MetricItem) []string {
	var o []string
	for _, it := range items {
		o = append(o, fatOf(it))
	}
	return o
}

func eq(a, b []string) bool {
	if len(a) != len(b) {
		return false
	}
	for i := range a {
		if a[i] != b[i] {
			return false
		}
	}
	return true
}

func runCase(caseIdx int, c *caseDesc, rng *rand.Rand) {
	caseNo++
	dir := filepath.Join(scratch, fmt.Sprintf("c17-%d", caseNo))
	os.MkdirAll(dir, 0o755)
	defer os.RemoveAll(dir)
	app := "vapp"
	e := config.NewDefaultConfig()
	e.Sentinel.App.Name = app
	e.Sentinel.Log.Dir = dir
	config.ResetGlobalConfig(e)
	clk.SetMs(c.T0)
	fail := func(clause, msg string) {
		c.Note = msg
		run.Violation("C17/"+clause, msg, c)
	}
	w, err := metric.NewDefaultMetricLogWriterOfApp(c.MaxSize, c.MaxFiles, app)
	if err != nil {
		fail("writer-create-error", err.Error())
		return
	}
	baseName := metric.FormMetricFileName(app, false)
	long, err := metric.NewDefaultMetricSearcher(dir, baseName)
	if err != nil {
		fail("searcher-create-error", err.Error())
		return
	}
	// midQuery: a query on the long-lived searcher BETWEEN writes (its cached position may point into a file
	// that later rolls / retention removes), checked against the files retained at that moment
	midQuery := func(i int, accepted []rec) bool {
		files := dataFiles(dir, baseName)
		var lines []string
		for _, f := range files {
			b, _ := os.ReadFile(f)
			for _, l := range strings.Split(string(b), "\n") {
				if l != "" {
					lines = append(lines, l)
				}
			}
		}
		if len(lines) == 0 || len(lines) > len(accepted) {
			return true
		}
		ret := accepted[len(accepted)-len(lines):]
		e := &expectation{retained: ret}
		first, last := ret[0].sec, ret[len(ret)-1].sec
		b := (first + uint64(rng.Int63n(int64(last-first)+1))) * 1000
		want := e.byTime(b, (last+1)*1000, "")
		var got []string
		var qerr error
		if run.Guard("C17/panic-in-search", c, func() {
			a, e2 := long.FindByTimeAndResource(b, (last+1)*1000, "")
			got, qerr = fats(a), e2
		}) {
			return false
		}
		if qerr != nil {
			fail("search-error:between-writes", fmt.Sprintf("after write %d, FindByTimeAndResource(%d,..) on the long-lived searcher returned an error: %v", i, b, qerr))
			return false
		}
		if !eq(got, want) {
			fail("reused-searcher-result(between-writes)", fmt.Sprintf("after write %d, FindByTimeAndResource(%d,%d,\"\") on the long-lived searcher returned %d items, the retained files hold %d matching ones: got %v want %v", i, b, (last+1)*1000, len(got), len(want), trunc(got), trunc(want)))
			return false
		}
		run.Count("queries_between_writes", 1)
		return true
	}
	var accepted []rec
	latest := c.T0 / 1000
	tsec := c.T0 / 1000
	for i, wd := range c.Writes {
		ns := int64(tsec) + int64(wd.DSec)
		ts := uint64(ns)*1000 + uint64(i%1000)
		if wd.DSec > 0 {
			tsec = uint64(ns)
		}
		clk.SetMs(uint64(tsec)*1000 + 999)
		var items []*base.MetricItem
		for j, r := range wd.Items {
			items = append(items, &base.MetricItem{Resource: r, Classification: int32(j % 3), PassQps: wd.N[j], BlockQps: wd.N[j] % 7, CompleteQps: wd.N[j] / 2, ErrorQps: uint64(j), AvgRt: wd.N[j] % 1000, OccupiedPassQps: 0, Concurrency: uint32(wd.N[j] % 50)})
		}
		var werr error
		if run.Guard("C17/panic-in-Write", c, func() { werr = w.Write(ts, items) }) {
			return
		}
		if werr != nil && uint64(ns) < latest {
			// a batch older than the log's latest second is outside the writer's domain: it must not be stored (checked
			// below through the retained content), whether it is dropped silently or refused with an error
			run.Count("stale_batches_refused_with_an_error", 1)
		} else if werr != nil {
			fail("write-error", fmt.Sprintf("write %d: %v", i, werr))
			return
		}
		if uint64(ns) >= latest {
			latest = uint64(ns)
			for _, it := range items {
				accepted = append(accepted, rec{fat: fatOf(it), sec: it.Timestamp / 1000, res: it.Resource})
			}
		}
		if rng.Intn(4) == 0 && !midQuery(i, accepted) {
			return
		}
		if fs := dataFiles(dir, baseName); uint32(len(fs)) > c.MaxFiles {
			fail("file-count-exceeds-max", fmt.Sprintf("after write %d there are %d metric log files, configured maximum %d", i, len(fs), c.MaxFiles))
			return
		}
	}
	if cl, ok := w.(interface{ Close() error }); ok {
		cl.Close()
	}
	// retained content, parsed by the monitor itself
	files := dataFiles(dir, baseName)
	var retainedLines []string
	for _, f := range files {
		b, _ := os.ReadFile(f)
		for _, l := range strings.Split(string(b), "\n") {
			if l != "" {
				retainedLines = append(retainedLines, l)
			}
		}
	}
	if len(retainedLines) > len(accepted) {
		fail("retained-not-suffix-of-accepted", fmt.Sprintf("%d lines retained, only %d accepted", len(retainedLines), len(accepted)))
		return
	}
	off := len(accepted) - len(retainedLines)
	exp := &expectation{}
	for i, l := range retainedLines {
		if accepted[off+i].fat != l {
			fail("retained-not-suffix-of-accepted", fmt.Sprintf("retained line %d is %q, accepted write was %q (stale second written, or data lost/reordered)", i, l, accepted[off+i].fat))
			return
		}
		exp.retained = append(exp.retained, accepted[off+i])
	}
	run.Count("rolls", int64(len(files)))
	if len(exp.retained) == 0 {
		return
	}
	firstSec, lastSec := exp.retained[0].sec, exp.retained[len(exp.retained)-1].sec
	// ---- queries on one long-lived searcher, each cross-checked on a fresh one
	span := lastSec - firstSec + 1
	nq := 6 + rng.Intn(10)
	for q := 0; q < nq; q++ {
		b := (firstSec + uint64(rng.Int63n(int64(span)+2))) * 1000
		if rng.Intn(5) == 0 {
			b = (firstSec - uint64(rng.Intn(3))) * 1000
		}
		b += uint64(rng.Intn(1000))
		var want, gotL, gotF []string
		var eL, eF error
		desc := ""
		lim := uint32(0)
		fresh, _ := metric.NewDefaultMetricSearcher(dir, baseName)
		if rng.Intn(2) == 0 {
			en := b + uint64(rng.Int63n(int64(span)*1000+2000))
			res := []string{"", "", "a", "bb", "nope"}[rng.Intn(5)]
			desc = fmt.Sprintf("FindByTimeAndResource(%d,%d,%q)", b, en, res)
			want = exp.byTime(b, en, res)
			if run.Guard("C17/panic-in-search", c, func() {
				var a, f []*base.MetricItem
				a, eL = long.FindByTimeAndResource(b, en, res)
				f, eF = fresh.FindByTimeAndResource(b, en, res)
				gotL, gotF = fats(a), fats(f)
			}) {
				return
			}
		} else {
			n := uint32(1 + rng.Intn(8))
			lim = n
			desc = fmt.Sprintf("FindFromTimeWithMaxLines(%d,%d)", b, n)
			want = exp.fromTime(b, n)
			if run.Guard("C17/panic-in-search", c, func() {
				var a, f []*base.MetricItem
				a, eL = long.FindFromTimeWithMaxLines(b, n)
				f, eF = fresh.FindFromTimeWithMaxLines(b, n)
				gotL, gotF = fats(a), fats(f)
			}) {
				return
			}
		}
		if eL != nil || eF != nil {
			fail("search-error", fmt.Sprintf("query %d %s returned an error: %v / %v", q, desc, eL, eF))
			return
		}
		// A line-limited query may stop at a file boundary once the limit is reached: any prefix of
		// the reference result that still honours the limit is a correct answer.
		if lim > 0 {
			okPrefix := func(g []string) bool {
				minLen := int(lim)
				if len(want) < minLen {
					minLen = len(want)
				}
				return len(g) >= minLen && len(g) <= len(want) && eq(g, want[:len(g)])
			}
			if okPrefix(gotF) && okPrefix(gotL) {
				run.Count("queries", 1)
				continue
			}
		}
		if !eq(gotF, want) {
			fail("fresh-searcher-result", fmt.Sprintf("%s on a fresh searcher returned %d items, expected %d (first retained second %d, last %d, files %d): got %v want %v", desc, len(gotF), len(want), firstSec, lastSec, len(files), trunc(gotF), trunc(want)))
			return
		}
		if !eq(gotL, want) {
			fail("reused-searcher-result(query-history-dependent)", fmt.Sprintf("query #%d %s on the long-lived searcher returned %d items, a fresh searcher (and the reference) %d: got %v want %v", q, desc, len(gotL), len(want), trunc(gotL), trunc(want)))
			return
		}
		run.Count("queries", 1)
	}
	// ---- crash points: truncate the last data file / its index at byte k on a copy
	lastFile := files[len(files)-1]
	data, _ := os.ReadFile(lastFile)
	idx, _ := os.ReadFile(lastFile + ".idx")
	writtenSet := map[string]int{}
	for _, r := range accepted {
		writtenSet[r.fat]++
	}
	// items of earlier files and line end offsets of the last file
	var earlier []rec
	var lastRecs []rec
	var lineEnd []int
	{
		nl := 0
		for _, f := range files[:len(files)-1] {
			b, _ := os.ReadFile(f)
			nl += strings.Count(string(b), "\n")
		}
		earlier = exp.retained[:nl]
		lastRecs = exp.retained[nl:]
		pos := 0
		for _, l := range strings.Split(strings.TrimSuffix(string(data), "\n"), "\n") {
			pos += len(l) + 1
			lineEnd = append(lineEnd, pos)
		}
	}
	cutsData := map[int]bool{}
	cutsIdx := map[int]bool{}
	thorough := run.Thorough()
	if thorough {
		for k := 0; k <= len(data); k++ {
			cutsData[k] = true
		}
		for k := 0; k <= len(idx); k++ {
			cutsIdx[k] = true
		}
	} else {
		tail := 0
		if len(lineEnd) > 3 {
			tail = lineEnd[len(lineEnd)-4]
		}
		for k := tail; k <= len(data); k++ {
			cutsData[k] = true
		}
		for i := 0; i < 24 && len(data) > 0; i++ {
			cutsData[rng.Intn(len(data)+1)] = true
		}
		for k := len(idx) - 48; k <= len(idx); k++ {
			if k >= 0 {
				cutsIdx[k] = true
			}
		}
		for i := 0; i < 12 && len(idx) > 0; i++ {
			cutsIdx[rng.Intn(len(idx)+1)] = true
		}
	}
	cdir := filepath.Join(dir, "crash")
	os.MkdirAll(cdir, 0o755)
	for _, f := range files {
		copyFile(f, filepath.Join(cdir, filepath.Base(f)))
		copyFile(f+".idx", filepath.Join(cdir, filepath.Base(f)+".idx"))
	}
	cData, cIdx := filepath.Join(cdir, filepath.Base(lastFile)), filepath.Join(cdir, filepath.Base(lastFile)+".idx")
	check := func(kind string, k int) bool {
		s, _ := metric.NewDefaultMetricSearcher(cdir, baseName)
		var got []string
		var err error
		bq := (firstSec) * 1000
		if run.Guard("C17/crash:panic-in-search:"+kind, c, func() {
			a, e2 := s.FindByTimeAndResource(bq, (lastSec+1)*1000, "")
			got, err = fats(a), e2
		}) {
			return false
		}
		if err != nil {
			fail("crash:search-error:"+kind, fmt.Sprintf("%s file cut at byte %d: search returned error %v", kind, k, err))
			return false
		}
		// only written items, no more often than written
		seen := map[string]int{}
		for _, g := range got {
			seen[g]++
			if seen[g] > writtenSet[g] {
				fail("crash:item-never-written:"+kind, fmt.Sprintf("%s file cut at byte %d: search returned %q which was never written (or more often than written)", kind, k, g))
				return false
			}
		}
		// must include: everything in earlier files + complete lines of the last file (data cut) / all (idx cut: the scan started in an earlier file or at an intact entry)
		var must []string
		for _, r := range earlier {
			must = append(must, r.fat)
		}
		if kind == "data" {
			for i, r := range lastRecs {
				if lineEnd[i] <= k {
					must = append(must, r.fat)
				}
			}
		} else if len(earlier) > 0 || k >= 16 {
			for _, r := range lastRecs {
				must = append(must, r.fat)
			}
		}
		need := map[string]int{}
		for _, m := range must {
			need[m]++
		}
		for m, n := range need {
			if seen[m] < n {
				fail("crash:item-lost:"+kind, fmt.Sprintf("%s file cut at byte %d: item %q lies wholly before the cut (line and index entry) but was not returned", kind, k, m))
				return false
			}
		}
		// second query: from the last seconds with a line limit
		if run.Guard("C17/crash:panic-in-search:"+kind, c, func() {
			a, e2 := s.FindFromTimeWithMaxLines(lastSec*1000, 3)
			got, err = fats(a), e2
		}) {
			return false
		}
		if err != nil {
			fail("crash:search-error:"+kind, fmt.Sprintf("%s file cut at byte %d: FindFromTimeWithMaxLines returned error %v", kind, k, err))
			return false
		}
		for _, g := range got {
			if writtenSet[g] == 0 {
				fail("crash:item-never-written:"+kind, fmt.Sprintf("%s file cut at byte %d: FindFromTimeWithMaxLines returned %q which was never written", kind, k, g))
				return false
			}
		}
		run.Count("crash_points."+kind, 1)
		return true
	}
	var ks []int
	for k := range cutsData {
		ks = append(ks, k)
	}
	sort.Ints(ks)
	for _, k := range ks {
		os.WriteFile(cData, data[:k], 0o644)
		if !check("data", k) {
			return
		}
	}
	os.WriteFile(cData, data, 0o644)
	ks = ks[:0]
	for k := range cutsIdx {
		ks = append(ks, k)
	}
	sort.Ints(ks)
	for _, k := range ks {
		os.WriteFile(cIdx, idx[:k], 0o644)
		if !check("index", k) {
			return
		}
	}
	// ---- restart after a crash that tore the index: one long-lived searcher is queried, the process "restarts" (a new
	// writer on the same directory appends newer seconds to a newer file), and the SAME searcher is queried again: every
	// item written after the restart is intact (line and index entry) and must be found
	if len(idx) >= 16 {
		os.WriteFile(cData, data, 0o644)
		os.WriteFile(cIdx, idx[:len(idx)-1-rng.Intn(15)], 0o644) // cut inside the last index entry
		s, _ := metric.NewDefaultMetricSearcher(cdir, baseName)
		var err error
		// first query: one second in the middle of the torn file (the searcher's cached position is then a non-zero
		// index offset inside that file), or the whole range
		q1b, q1e := firstSec*1000, (lastSec+1)*1000
		var secs []uint64
		for _, r := range lastRecs {
			if len(secs) == 0 || secs[len(secs)-1] != r.sec {
				secs = append(secs, r.sec)
			}
		}
		if len(secs) >= 3 && rng.Intn(4) != 0 {
			m := secs[1+rng.Intn(len(secs)-2)]
			q1b, q1e = m*1000, m*1000
		}
		if run.Guard("C17/crash:panic-in-search:restart", c, func() { _, err = s.FindByTimeAndResource(q1b, q1e, "") }) {
			return
		}
		e2 := config.NewDefaultConfig()
		e2.Sentinel.App.Name = app
		e2.Sentinel.Log.Dir = cdir
		config.ResetGlobalConfig(e2)
		clk.SetMs((lastSec + 5) * 1000)
		w2, werr := metric.NewDefaultMetricLogWriterOfApp(c.MaxSize, c.MaxFiles+8, app)
		if werr != nil {
			fail("writer-create-error", "restart on the crashed directory: "+werr.Error())
			return
		}
		var post []string
		for j := uint64(0); j < 6; j++ {
			ts := (lastSec + 5 + j) * 1000
			clk.SetMs(ts)
			it := &base.MetricItem{Resource: fmt.Sprintf("post-crash-%d", j), Timestamp: ts, PassQps: 10 + j, CompleteQps: j}
			if run.Guard("C17/panic-in-Write", c, func() { werr = w2.Write(ts, []*base.MetricItem{it}) }) {
				return
			}
			post = append(post, fatOf(it))
		}
		if cl, ok := w2.(interface{ Close() error }); ok {
			cl.Close()
		}
		var got []string
		if run.Guard("C17/crash:panic-in-search:restart", c, func() {
			a, e3 := s.FindByTimeAndResource((lastSec+5)*1000, (lastSec+12)*1000, "")
			got, err = fats(a), e3
		}) {
			return
		}
		if err != nil {
			fail("crash:search-error:restart", fmt.Sprintf("index torn in its last entry, writer restarted: the searcher that was queried before the restart returned error %v", err))
			return
		}
		if !eq(got, post) {
			fail("crash:item-lost:restart", fmt.Sprintf("index torn in its last entry, then a restarted writer wrote 6 seconds to a newer file: the searcher that had been queried before the restart returns %d of them: %v", len(got), got))
			return
		}
		run.Count("crash_restarts", 1)
	}
	// ---- plain restart on the (possibly full) original directory: a new writer with the same limits starts its own
	// file at once; the number of files must respect the maximum from the first moment on
	{
		e3 := config.NewDefaultConfig()
		e3.Sentinel.App.Name = app
		e3.Sentinel.Log.Dir = dir
		config.ResetGlobalConfig(e3)
		clk.SetMs((lastSec + 30) * 1000)
		os.RemoveAll(cdir)
		w3, werr := metric.NewDefaultMetricLogWriterOfApp(c.MaxSize, c.MaxFiles, app)
		if werr != nil {
			fail("writer-create-error", "restart on the log directory: "+werr.Error())
			return
		}
		nf := len(dataFiles(dir, baseName))
		if cl, ok := w3.(interface{ Close() error }); ok {
			cl.Close()
		}
		if uint32(nf) > c.MaxFiles {
			fail("file-count-exceeds-max:after-restart", fmt.Sprintf("a writer restarted on a directory holding %d metric log files: %d files right after it was created, configured maximum %d", len(files), nf, c.MaxFiles))
			return
		}
		run.Count("plain_restarts", 1)
	}
	run.Distinct(vk.Hash(c.MaxSize, c.MaxFiles, len(files), len(exp.retained), idx0(idx), caseNo))
}

func idx0(b []byte) int { return len(b) }

func trunc(s []string) []string {
	if len(s) > 4 {
		return append(append([]string{}, s[:2]...), "...", s[len(s)-1])
	}
	return s
}

func copyFile(a, b string) {
	d, err := os.ReadFile(a)
	if err == nil {
		os.WriteFile(b, d, 0o644)
	}
}

func main() {
	sx.Quiet()
	run = vk.Start("C17", "seq")
	defer run.Finish()
	run.Rule("case = (max file size 200 B - 4 KB, max files 1-5, start time incl. shortly before midnight, 8-48 per-second batches of 1-5 items with repeated / skipped / stale seconds); after every write the file count bound; retained files must be a byte-identical suffix of the accepted writes; queries on ONE long-lived searcher - interleaved with the writes (so that its cached position can point into files that later roll or are removed by retention) and 6-15 more afterwards (by time and resource, from time with line limit) - and on fresh searchers vs. the expectation computed from the retained items; then the last data file and its index are cut at byte k on a copy (quick: every offset of the last 3 lines / 3 index entries + sampled offsets; thorough: every offset) and a fresh searcher must not fail, must return only written items and every item wholly before the cut. distinct = cases with at least one retained item.")
	run.Assume("resource names contain no '|' or line break", "the process time zone is the one the writer reads through util.Now()", "virtual clock via util.SetClock")
	clk = vclock.New(1900000000000)
	scratch = os.Getenv("VERIF_SCRATCH_DIR")
	if scratch == "" {
		scratch = os.TempDir()
	}
	n := run.N(60, 3000)
	if run.Thorough() {
		n = run.N(60, 50+2950) // every byte offset for each of them
	}
	for i := 0; i < n; i++ {
		if run.Skip(i) {
			continue
		}
		rng := run.Rand(i)
		c := genCase(rng)
		run.Begin(i, c)
		if i < 2 {
			cc := *c
			if len(cc.Writes) > 6 {
				cc.Writes = cc.Writes[:6]
			}
			run.Sample(cc)
		}
		run.Guard("C17/panic", c, func() { runCase(i, c, rng) })
	}
	config.ResetGlobalConfig(config.NewDefaultConfig())
}
