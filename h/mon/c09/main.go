// C09 monitor. Engine "coop": the real BucketLeapArray code, compiled with every
// sync/atomic access of core/stat/base turned into a scheduler yield point, is
// driven by 2-3 cooperative workers around a bucket boundary under random / PCT /
// bounded-DFS schedules. Engine "stress" (VERIF_MODE=stress, -race): 32 goroutines
// in frozen-clock phases.
package main

import (
	"fmt"
	"math/rand"
	"os"
	"runtime"
	"strings"
	"sync"
	"sync/atomic"
	"time"

	"github.com/alibaba/sentinel-golang/core/base"
	sbase "github.com/alibaba/sentinel-golang/core/stat/base"

	"verif/coop"
	"verif/sx"
	"verif/vatomic"
	"verif/vclock"
	"verif/vk"
)

const marker = int64(1) << 56 // 16^14: data of the expired cycle

type opDesc struct {
	Kind string `json:"k"` // add | read | values | conc | tick
	Ev   int    `json:"ev,omitempty"`
	Dt   uint64 `json:"dt,omitempty"`
}

type scen struct {
	Family  string     `json:"family"` // warm | cold | boundary
	N       uint32     `json:"n"`
	L       uint32     `json:"l"`
	Workers [][]opDesc `json:"workers"`
	Strat   string     `json:"strategy"`
	Choices []byte     `json:"choices,omitempty"`
	Note    string     `json:"note,omitempty"`
	// Wrap: a second copy of the expired marker is recorded 2^32 ms (+1) before the run (49.7 days of idling):
	// bucket ages must not be computed modulo 2^32
	Wrap bool `json:"wrap,omitempty"`
}

var run *vk.Run
var clk *vclock.Clock

func genScen(rng *rand.Rand) *scen {
	s := &scen{}
	s.Family = vk.PickS(rng, "warm", "cold", "cold", "boundary", "boundary")
	s.N = vk.PickU32(rng, 1, 2, 2, 3, 20)
	s.L = vk.PickU32(rng, 10, 500)
	s.Wrap = rng.Intn(8) == 0
	nw := 2 + rng.Intn(2)
	for w := 0; w < nw; w++ {
		var ops []opDesc
		for i, n := 0, 1+rng.Intn(2); i < n; i++ {
			switch k := rng.Intn(10); {
			case k < 6:
				ops = append(ops, opDesc{Kind: "add", Ev: rng.Intn(5)})
			case k < 8:
				ops = append(ops, opDesc{Kind: "read", Ev: rng.Intn(4)})
			case k < 9:
				ops = append(ops, opDesc{Kind: "values"})
			default:
				ops = append(ops, opDesc{Kind: "conc"})
			}
		}
		s.Workers = append(s.Workers, ops)
	}
	if s.Family == "boundary" {
		var ticks []opDesc
		for i, n := 0, 1+rng.Intn(2); i < n; i++ {
			ticks = append(ticks, opDesc{Kind: "tick", Dt: []uint64{1, 1, uint64(s.L) / 2, uint64(s.L)}[rng.Intn(4)]})
		}
		s.Workers = append(s.Workers, ticks)
	}
	return s
}

type addRec struct {
	amt    int64
	ev     int
	ts     uint64
	worker int
	seqBeg int // global sequence numbers of begin / end of the op
	seqEnd int
}

// opRec: the interval (in global sequence numbers) during which an operation that refreshes the bucket of
// timestamp ts (and may therefore perform / meet its rollover) was in flight
type opRec struct {
	worker   int
	ts       uint64
	beg, end int
	add      *addRec
}

type readRec struct {
	ev     int
	ts     uint64
	tsEnd  uint64
	val    int64
	seqEnd int
	worker int
}

func digitsOK(v int64, allowed int64) (ok bool, why string) {
	// every hex digit must be 0 or 1 and only positions present in `allowed` may be set
	if v < 0 {
		return false, "negative total"
	}
	if v&^allowed != 0 {
		for p := 0; p < 16; p++ {
			d := (v >> (4 * uint(p))) & 0xf
			a := (allowed >> (4 * uint(p))) & 0xf
			if d > 1 {
				return false, fmt.Sprintf("amount #%d counted %d times", p, d)
			}
			if d == 1 && a == 0 {
				if p == 14 {
					return false, "data of the expired cycle is visible"
				}
				return false, fmt.Sprintf("amount #%d counted where it must not be", p)
			}
		}
		return false, "unexpected bits"
	}
	return true, ""
}

func execute(s *scen, ch coop.Chooser) (*coop.Result, string, string) {
	L, N := uint64(s.L), uint64(s.N)
	cycle := L * N
	tCreate := 1000000 * cycle
	clk.SetMs(tCreate + 1)
	arr := sbase.NewBucketLeapArray(s.N, uint32(cycle))
	// expired data in slot 0 (bucket [tCreate, tCreate+L)) for every event
	for ev := 0; ev < 5; ev++ {
		arr.AddCount(base.MetricEvent(ev), marker)
	}
	// target: bucket [T, T+L) maps to slot 0 again, several cycles later
	T := tCreate + 7*cycle
	if s.Wrap {
		T = tCreate + (uint64(1)<<33)/cycle*cycle // far enough for a second marker 2^32 ms before the run
		clk.SetMs(T + 3 - (uint64(1) << 32) - 1)
		for ev := 0; ev < 5; ev++ {
			arr.AddCount(base.MetricEvent(ev), marker)
		}
	}
	var adds []*addRec
	var reads []*readRec
	var ops []*opRec
	seq := 0
	opBegin := func(w int, ts uint64, a *addRec) *opRec {
		seq++
		o := &opRec{worker: w, ts: ts, beg: seq, end: 1 << 30, add: a}
		ops = append(ops, o)
		return o
	}
	opEnd := func(o *opRec) {
		seq++
		o.end = seq
	}
	inflight := map[int]uint64{}
	warmAmt := int64(0)
	switch s.Family {
	case "warm":
		clk.SetMs(T + 3)
		warmAmt = int64(1) << 52 // 16^13, recorded sequentially: performs the rollover alone
		for ev := 0; ev < 5; ev++ {
			arr.AddCount(base.MetricEvent(ev), warmAmt)
		}
	case "cold":
		clk.SetMs(T + 3)
	case "boundary":
		// the previous bucket (slot N-1, or the same slot when N==1) is warm; the target is cold
		clk.SetMs(T - 1)
		for ev := 0; ev < 5; ev++ {
			arr.AddCount(base.MetricEvent(ev), 0)
		}
	}
	nAmt := 0
	fns := make([]func(), len(s.Workers))
	for w := range s.Workers {
		w := w
		ops := s.Workers[w]
		fns[w] = func() {
			for _, o := range ops {
				switch o.Kind {
				case "tick":
					// advance only while no in-flight recorder would be stalled for more than one bucket
					for try := 0; try < 50; try++ {
						ok := true
						nn := clk.Ms() + o.Dt
						for _, ts := range inflight {
							if nn-ts > L {
								ok = false
							}
						}
						if ok {
							clk.AddMs(o.Dt)
							break
						}
						coop.Yield("tick-wait")
					}
					coop.Yield("tick")
				case "add":
					a := &addRec{amt: int64(1) << (4 * uint(nAmt)), ev: o.Ev, worker: w}
					nAmt++
					a.ts = clk.Ms()
					op := opBegin(w, a.ts, a)
					a.seqBeg = op.beg
					inflight[w] = a.ts
					adds = append(adds, a)
					arr.AddCount(base.MetricEvent(o.Ev), a.amt)
					delete(inflight, w)
					opEnd(op)
					a.seqEnd = op.end
				case "conc":
					inflight[w] = clk.Ms()
					op := opBegin(w, clk.Ms(), nil)
					arr.UpdateConcurrency(int32(3 + w))
					delete(inflight, w)
					opEnd(op)
				case "read":
					r := &readRec{ev: o.Ev, ts: clk.Ms(), worker: w}
					op := opBegin(w, r.ts, nil)
					r.val = arr.Count(base.MetricEvent(o.Ev))
					r.tsEnd = clk.Ms()
					opEnd(op)
					r.seqEnd = op.end
					reads = append(reads, r)
				case "values":
					ts := clk.Ms()
					op := opBegin(w, ts, nil)
					for _, bw := range arr.Values(ts) {
						mb := bw.Value.Load().(*sbase.MetricBucket)
						for ev := 0; ev < 4; ev++ {
							_ = mb.Get(base.MetricEvent(ev))
						}
					}
					opEnd(op)
				}
			}
		}
	}
	res := coop.Run(ch, coop.Options{Adversarial: 1500, FairTail: 10000}, fns...)
	if res.Stuck {
		return res, "", "stuck"
	}
	s.Choices = res.Choices
	if len(res.NonTerminated) > 0 {
		return res, "termination", fmt.Sprintf("workers %v did not finish within 10000 fair steps", res.NonTerminated)
	}
	for w, p := range res.Panics {
		return res, "panic", fmt.Sprintf("worker %d panicked: %s", w, p)
	}
	// ---- oracle
	// The final reads below refresh the current bucket themselves. If a lock was leaked during the
	// run they would spin forever: perform one such read under the scheduler first, so that
	// non-termination is decided in steps.
	probe := coop.Run(coop.NonPreemptive{}, coop.Options{Adversarial: 1, FairTail: 5000}, func() {
		_ = arr.CountWithTime(clk.Ms(), base.MetricEventPass)
	})
	if probe.Stuck {
		return res, "", "stuck"
	}
	if len(probe.NonTerminated) > 0 {
		return res, "termination:reader-after-quiescence", "after all workers had finished, a lone reader (CountWithTime) did not terminate within 5000 steps: the rollover path is blocked (leaked update lock?)"
	}
	now := clk.Ms()
	cur := now - now%L
	winLo := cur + L - cycle
	overlap := false // did any recorder overlap the rollover of its own bucket?
	if s.Family != "warm" {
		overlap = true // cold buckets: the workers themselves perform the rollover
	}
	// reads: subset of adds begun before the read ended, same event, timestamp inside the reader's window
	for _, r := range reads {
		var allowed int64
		rcur := r.ts - r.ts%L
		rlo := rcur + L - cycle
		_ = rcur
		for _, a := range adds {
			ab := a.ts - a.ts%L
			// (a single-bucket array may credit an amount to the window after its timestamp's: the
			// statement's attribution clause is for arrays with more than one bucket)
			// A reader that is itself pre-empted across the boundary may pick up amounts recorded
			// (before it returned) for buckets up to the one current when it returned: nothing invented.
			rend := r.tsEnd - r.tsEnd%L
			if a.ev == r.ev && a.seqBeg < r.seqEnd && ((ab >= rlo && ab <= rend) || s.N == 1) {
				allowed |= a.amt
			}
		}
		if s.Family == "warm" {
			allowed |= warmAmt
		}
		if ok, why := digitsOK(r.val, allowed); !ok {
			cl := "read-exceeds-recorded"
			if why == "data of the expired cycle is visible" {
				cl = "expired-data-visible-to-reader"
			}
			dbg := ""
			for _, a := range adds {
				dbg += fmt.Sprintf(" add{amt=%#x ev=%d ts=%d seq=%d..%d}", a.amt, a.ev, a.ts, a.seqBeg, a.seqEnd)
			}
			return res, cl, fmt.Sprintf("worker %d Count(ev %d) at t=%d (seqEnd %d, allowed %#x) returned %#x: %s;%s", r.worker, r.ev, r.ts, r.seqEnd, allowed, r.val, why, dbg)
		}
		if s.Family == "warm" && r.val&warmAmt == 0 {
			return res, "warm:read-lost-recorded-data", fmt.Sprintf("worker %d Count(ev %d) returned %#x without the amount recorded before the run", r.worker, r.ev, r.val)
		}
	}
	// final per-bucket content
	for _, bw := range arr.Values(now) {
		bs := bw.BucketStart
		mb := bw.Value.Load().(*sbase.MetricBucket)
		for ev := 0; ev < 5; ev++ {
			var allowed int64
			for _, a := range adds {
				ab := a.ts - a.ts%L
				if a.ev == ev && (ab == bs || s.N == 1) {
					allowed |= a.amt
				}
			}
			if s.Family == "warm" && bs == T {
				allowed |= warmAmt
			}
			got := mb.Get(base.MetricEvent(ev))
			if ok, why := digitsOK(got, allowed); !ok {
				cl := "bucket-exceeds-recorded"
				switch {
				case why == "data of the expired cycle is visible":
					cl = "expired-data-in-final-bucket"
				case s.N > 1 && got&^allowed&^marker != 0:
					cl = "amount-credited-to-wrong-bucket"
				}
				return res, cl, fmt.Sprintf("bucket %d (T%+d) ev %d holds %#x: %s", bs, int64(bs)-int64(T), ev, got, why)
			}
		}
	}
	// totals
	for ev := 0; ev < 5; ev++ {
		var want int64
		for _, a := range adds {
			ab := a.ts - a.ts%L
			if a.ev == ev && ((ab >= winLo && ab <= cur) || s.N == 1) {
				want |= a.amt
			}
		}
		if s.Family == "warm" {
			want |= warmAmt
		}
		got := arr.CountWithTime(now, base.MetricEvent(ev))
		if ok, why := digitsOK(got, want); !ok {
			return res, "total-exceeds-recorded", fmt.Sprintf("final CountWithTime(ev %d) = %#x: %s", ev, got, why)
		}
		if !overlap && got != want {
			return res, "warm:total-not-exact", fmt.Sprintf("no recorder overlapped a rollover, final CountWithTime(ev %d) = %#x, recorded %#x", ev, got, want)
		}
		// per amount: a recorder that was alone on its slot (no other operation refreshing a bucket of the same
		// slot was in flight at any time during its call - whatever happened on OTHER slots) did not overlap
		// the rollover of its own bucket with anybody: its amount must be in the total
		if s.N > 1 {
			for _, o := range ops {
				a := o.add
				if a == nil || a.ev != ev || want&a.amt == 0 || got&a.amt != 0 {
					continue
				}
				alone := true
				for _, p := range ops {
					if p != o && (p.ts/L)%N == (o.ts/L)%N && p.beg < o.end && o.beg < p.end {
						alone = false
					}
				}
				if alone {
					return res, "lost-update-without-overlapping-own-rollover", fmt.Sprintf("amount %#x (ev %d) recorded by worker %d at t=T%+d, alone on its slot during the whole call (other operations in flight only on other slots), is missing from the final total %#x", a.amt, ev, a.worker, int64(a.ts)-int64(T), got)
				}
			}
		}
		if got != want {
			run.Count("schedules_with_permitted_loss", 1)
		}
	}
	// last: a rollover into a later bucket must still be possible (done after the comparisons above
	// because it recycles a slot); again under the scheduler, so that a leaked lock shows as
	// non-termination in steps instead of hanging the monitor
	probe = coop.Run(coop.NonPreemptive{}, coop.Options{Adversarial: 1, FairTail: 5000}, func() {
		_ = arr.Values(clk.Ms() + uint64(s.L)*uint64(s.N))
	})
	if probe.Stuck {
		return res, "", "stuck"
	}
	if len(probe.NonTerminated) > 0 {
		return res, "termination:rollover-after-quiescence", "after all workers had finished, a lone reader needing a rollover (Values at a later bucket) did not terminate within 5000 steps: the update lock was never released"
	}
	return res, "", ""
}

// -------------------------------------------------------------------- stress engine

func stress() {
	run = vk.Start("C09", "stress")
	defer run.Finish()
	run.Rule("phase = 32 goroutines x 400 adds (plus concurrent readers) on one BucketLeapArray with a frozen virtual clock; warm phases (bucket pre-touched) require exact totals, cold phases (first touch by the racing goroutines) require total <= recorded and no expired marker; geometry 1/2/20 buckets; under the race detector (which also enables checkptr for the unsafe array indexing). distinct = phases.")
	rounds := run.N(150, 4000)
	for r := 0; r < rounds; r++ {
		if run.Skip(r) {
			continue
		}
		run.Begin(r, map[string]int{"phase": r})
		rng := run.Rand(r)
		N := vk.PickU32(rng, 1, 2, 20)
		L := uint64(vk.PickU32(rng, 10, 500))
		cycle := L * uint64(N)
		t0 := 2000000*cycle + uint64(r)*50*cycle
		clk.SetMs(t0 + 1)
		arr := sbase.NewBucketLeapArray(N, uint32(cycle))
		arr.AddCount(base.MetricEventPass, marker)
		warm := rng.Intn(2) == 0
		clk.SetMs(t0 + 9*cycle + 2)
		if warm {
			arr.AddCount(base.MetricEventPass, 0)
		}
		var total, maxRead, progress int64
		var wg sync.WaitGroup
		const G, K = 32, 400
		for g := 0; g < G; g++ {
			wg.Add(1)
			g := g
			go func() {
				defer wg.Done()
				for k := 0; k < K; k++ {
					if g%8 == 7 {
						v := arr.Count(base.MetricEventPass)
						for {
							m := atomic.LoadInt64(&maxRead)
							if v <= m || atomic.CompareAndSwapInt64(&maxRead, m, v) {
								break
							}
						}
						atomic.AddInt64(&progress, 1)
						continue
					}
					atomic.AddInt64(&total, 1)
					arr.AddCount(base.MetricEventPass, 1)
					atomic.AddInt64(&progress, 1)
				}
			}()
		}
		doneCh := make(chan struct{})
		go func() { wg.Wait(); close(doneCh) }()
		// the phase normally takes milliseconds. Hang detection is by progress, not by a deadline: the phase is given up
		// only when NO operation completed during 60 consecutive seconds (a loaded machine slows everything down but does
		// not stop it); what the stuck goroutines are doing decides between violated and inconclusive
		hung := false
		for last, still := int64(-1), 0; !hung; {
			select {
			case <-doneCh:
				still = -1
			case <-time.After(30 * time.Second):
				if cur := atomic.LoadInt64(&progress); cur == last {
					still++
				} else {
					last, still = cur, 0
				}
			}
			if still < 0 {
				break
			}
			if still >= 2 {
				hung = true
			}
		}
		if hung {
			buf := make([]byte, 1<<22)
			buf = buf[:runtime.Stack(buf, true)]
			if n := strings.Count(string(buf), "currentBucketOfTime"); n > 0 {
				run.Violation("C09/stress:non-termination", fmt.Sprintf("phase %d (%dx%dms): no operation completed for 60 s and %d goroutines are inside currentBucketOfTime: recorders / readers do not terminate", r, N, L, n), map[string]interface{}{"phase": r, "n": N, "l": L})
			} else {
				run.Inconclusive("stress phase made no progress for 60 s but no goroutine is inside currentBucketOfTime")
			}
			return
		}
		got := arr.Count(base.MetricEventPass)
		fam := "cold"
		if warm {
			fam = "warm"
		}
		d := map[string]interface{}{"phase": r, "n": N, "l": L, "family": fam}
		switch {
		case got >= marker || maxRead >= marker:
			run.Violation("C09/stress:expired-data-visible", fmt.Sprintf("phase %d (%s, %dx%dms): total %d / max concurrent read %d contains the expired cycle's marker", r, fam, N, L, got, maxRead), d)
		case got > total || maxRead > total:
			run.Violation("C09/stress:total-exceeds-recorded", fmt.Sprintf("phase %d (%s): Count=%d, max concurrent read %d, recorded %d", r, fam, got, maxRead, total), d)
		case warm && got != total:
			run.Violation("C09/stress:warm:total-not-exact", fmt.Sprintf("phase %d (warm, %dx%dms): Count=%d, recorded %d", r, N, L, got, total), d)
		}
		if got != total {
			run.Count("phases_with_permitted_loss", 1)
		}
		run.Distinct(vk.Hash(r, N, L, warm))
		if r < 2 {
			run.Sample(d)
		}
	}
}

func main() {
	sx.Quiet()
	clk = vclock.New(1900000000000)
	if os.Getenv("VERIF_MODE") == "stress" {
		stress()
		return
	}
	run = vk.Start("C09", "coop")
	defer run.Finish()
	run.Rule("schedule = (family warm/cold/boundary, geometry 1/2/3/20 buckets x 10/500 ms, 2-3 workers x 1-2 ops add/read/values/conc + a clock-tick worker constrained so that no in-flight recorder is stalled longer than one bucket, choice sequence at every atomic access of core/stat/base) under random walk, PCT d<=3 and bounded DFS; amounts are distinct powers of 16 so that every total decodes into exactly which adds were counted; distinct = distinct (scenario, interleaving).")
	run.Assume("Go atomics are sequentially consistent: interleaving at atomic-access granularity is complete for this lock-free code", "min-rt / max-concurrency (documented as possibly inaccurate) are exercised but not compared")
	{ // observability calibration: the code under test must reach the scheduler through the atomic shim
		c0 := atomic.LoadUint64(&vatomic.Count)
		a := sbase.NewBucketLeapArray(2, 1000)
		a.AddCount(base.MetricEventPass, 1)
		_ = a.Count(base.MetricEventPass)
		if atomic.LoadUint64(&vatomic.Count) == c0 {
			run.Inconclusive("observability: recording into a BucketLeapArray executed no shimmed atomic access (were the files of core/stat/base renamed?) - no interleaving can be explored")
			return
		}
	}
	n := run.N(30000, 1500000)
	for i := 0; i < n; i++ {
		if run.Skip(i) {
			continue
		}
		rng := run.Rand(i)
		s := genScen(rng)
		var ch coop.Chooser
		switch i % 4 {
		case 0:
			s.Strat = "random"
			ch = &coop.Random{R: rng}
		default:
			d := 1 + rng.Intn(3)
			s.Strat = fmt.Sprintf("pct-d%d", d)
			ch = coop.NewPCT(rng, len(s.Workers), d, 60)
		}
		run.Eval(i)
		if i < 2 {
			run.Sample(s)
		}
		check(i, s, ch)
	}
	// sequential histories across a bucket NUMBER that is a multiple of 2^32 (10 ms buckets: the next one is in 2027):
	// no recorder overlaps anything here, so the sums are exactly the recorded totals of the live buckets
	for j, ne := 0, run.N(60, 600); j < ne; j++ {
		i := 6_000_000 + j
		if run.Skip(i) {
			continue
		}
		run.Eval(i)
		epoch(i, run.Rand(i))
	}
	if !run.Replaying() {
		// bounded DFS (<= 2 pre-emptions) over 2-worker scenarios
		nd := run.N(4, 60)
		for j := 0; j < nd; j++ {
			rng := run.Rand(5_000_000 + j)
			s := genScen(rng)
			if s.Family == "boundary" {
				s.Workers = append(s.Workers[:1], s.Workers[len(s.Workers)-1])
			} else {
				s.Workers = s.Workers[:2]
			}
			s.Strat = "dfs-2-preemptions"
			d := &coop.DFS{MaxPreempt: 2}
			cnt := 0
			for d.Next() && cnt < 40000 {
				cnt++
				run.Eval(5_000_000 + j)
				ss := *s
				check(5_000_000+j, &ss, d)
			}
			run.Count("dfs_schedules", int64(cnt))
			if cnt < 40000 {
				run.Count("dfs_scenarios_exhausted", 1)
			}
		}
	}
}

func check(i int, s *scen, ch coop.Chooser) {
	res, clause, msg := execute(s, ch)
	if msg == "stuck" {
		run.Abort("scheduler: a worker did not reach a yield point (wall-clock guard); the process is abandoned")
		return
	}
	if clause != "" {
		s.Note = msg
		run.ViolationAt(i, "C09/"+s.Family+":"+clause, fmt.Sprintf("[%s %dx%dms %s] %s", s.Family, s.N, s.L, s.Strat, msg), s)
		return
	}
	run.Count("steps", int64(res.Steps))
	run.Distinct(vk.Hash(s.Family, s.N, s.L, s.Workers, string(res.Choices)))
}

// epoch: one sequential recorder walking over bucket number k*2^32 on an array whose bucket count does not divide 2^32.
func epoch(i int, rng *rand.Rand) {
	N := vk.PickU32(rng, 3, 3, 5, 6, 7, 10, 20, 24, 2)
	L := vk.PickU32(rng, 10, 10, 100, 500, 1000, 7)
	kmax := int(uint64(9e12) / ((uint64(1) << 32) * uint64(L)))
	k := uint64(1 + rng.Intn(kmax))
	wrapAt := k << 32 // bucket number
	b := wrapAt - 1 - uint64(rng.Intn(int(N)))
	d := map[string]interface{}{"family": "epoch", "buckets": N, "bucket_ms": L, "wrap_at_bucket": wrapAt, "first_bucket": b}
	run.Begin(i, d)
	clk.SetMs(b*uint64(L) + uint64(rng.Intn(int(L))))
	arr := sbase.NewBucketLeapArray(N, N*L)
	rec := map[uint64]int64{}
	for step := 0; step < int(2*N)+4; step++ {
		now := clk.Ms()
		cur := now / uint64(L)
		amt := int64(1 + step)
		if rng.Intn(5) != 0 {
			arr.AddCount(base.MetricEventPass, amt)
			rec[cur] += amt
		}
		var want int64
		for q, a := range rec {
			if q+uint64(N) > cur && q <= cur {
				want += a
			}
		}
		if got := arr.Count(base.MetricEventPass); got != want {
			run.Violation("C09/epoch:sequential-sum", fmt.Sprintf("[%d x %d ms, sequential] at bucket number %d (2^32*%d %+d) the array reports %d, recorded in the %d live buckets: %d", N, L, cur, k, int64(cur)-int64(wrapAt), got, N, want), d)
			return
		}
		clk.AddMs(uint64(vk.PickU32(rng, L, L, L, 0, 1, 2*L)))
	}
	run.Count("epoch_histories", 1)
	run.Distinct(vk.Hash("epoch", N, L, k, b))
}
