// C11 monitor: adaptive thresholds (warm-up, memory-adaptive) measured
// behaviourally through api.Entry under the virtual clock.
package main

import (
	"fmt"
	"math"
	"math/rand"
	"os"
	"sync/atomic"

	sentinel "github.com/alibaba/sentinel-golang/api"
	"github.com/alibaba/sentinel-golang/core/flow"
	"github.com/alibaba/sentinel-golang/core/system_metric"

	"verif/coop"
	"verif/sx"
	"verif/vatomic"
	"verif/vclock"
	"verif/vk"
)

var run *vk.Run
var clk *vclock.Clock
var caseNo int

type warmCase struct {
	T      float64 `json:"threshold"`
	Period uint32  `json:"period_s"`
	Cold   uint32  `json:"cold_factor"` // 0 = default (3)
	Hist   string  `json:"demand"`      // saturate | saturate-idle-saturate | sparse | bursty
	// Throttle: the warm-up calculator drives a throttling checker (no queueing) instead of the reject checker: the
	// envelope is the same, observed through the paced admissions
	Throttle bool   `json:"throttling_checker,omitempty"`
	// Over: the rule replaces, at the same instant and before any traffic, a rule that differs only in the cold factor
	// (OverCold): the envelope of the rule loaded LAST must hold
	Over     bool   `json:"loaded_over_other_cold_factor,omitempty"`
	OverCold uint32 `json:"other_cold_factor,omitempty"`
	Note     string `json:"note,omitempty"`
}

func (c warmCase) cold() float64 {
	if c.Cold <= 1 {
		return 3
	}
	return float64(c.Cold)
}

// try issues one single-token request at the current instant.
func try(res string) bool {
	e, b := sentinel.Entry(res)
	if b != nil {
		return false
	}
	e.Exit()
	return true
}

func runWarm(idx int, c *warmCase) {
	caseNo++
	res := fmt.Sprintf("c11-w-%d", caseNo)
	if c.Hist == "flood-then-rule" {
		// the resource runs unlimited (no rule yet) at a rate far above the later threshold; the rule is loaded in the
		// following second, so its first synchronisation sees a previous-second rate much larger than the threshold
		clk.AddMs(100000)
		clk.SetMs(clk.Ms() - clk.Ms()%1000)
		flood := int(float64(2*c.Period+3)*c.T*3) + 10
		for k := 0; k < flood; k++ {
			try(res)
			if k%1000 == 999 {
				clk.AddMs(1)
			}
		}
		clk.SetMs(clk.Ms() - clk.Ms()%1000 + 1000)
	}
	cbh := flow.Reject
	if c.Throttle {
		cbh = flow.Throttling
	}
	if c.Over {
		if _, err := flow.LoadRulesOfResource(res, []*flow.Rule{{ID: res, Resource: res, TokenCalculateStrategy: flow.WarmUp, ControlBehavior: cbh,
			Threshold: c.T, WarmUpPeriodSec: c.Period, WarmUpColdFactor: c.OverCold}}); err != nil {
			run.Violation("C11/warmup:load-error", err.Error(), c)
			return
		}
		run.Count("warmup_rules_loaded_over_another_cold_factor", 1)
	}
	if _, err := flow.LoadRulesOfResource(res, []*flow.Rule{{ID: res, Resource: res, TokenCalculateStrategy: flow.WarmUp, ControlBehavior: cbh,
		Threshold: c.T, WarmUpPeriodSec: c.Period, WarmUpColdFactor: c.Cold}}); err != nil {
		run.Violation("C11/warmup:load-error", err.Error(), c)
		return
	}
	defer flow.ClearRulesOfResource(res)
	if c.Hist != "flood-then-rule" {
		clk.AddMs(100000)
		clk.SetMs(clk.Ms() - clk.Ms()%1000) // start on a second boundary
	}
	cls := "general"
	if c.T/c.cold() < 1 {
		cls = "cold-rate-below-one-token"
	}
	if uint64(float64(c.Period)*c.T/(c.cold()-1)) == uint64(float64(c.Period)*c.T/(c.cold()-1))+uint64(2*float64(c.Period)*c.T/(1+c.cold())) {
		cls = "degenerate-token-bucket(max==warning)"
	}
	fail := func(clause, msg string) {
		c.Note = msg
		run.Violation("C11/warmup:"+clause+":"+cls, fmt.Sprintf("[T=%v period=%ds cold=%v %s] %s", c.T, c.Period, c.cold(), c.Hist, msg), c)
	}
	step := uint64(10)
	if c.Period > 10 {
		step = 20
	}
	horizon := uint64(3*c.Period+10) * 1000
	// per-500ms-bucket admissions, to evaluate the sliding 1 s aligned window
	adm := map[uint64]int{}
	windowOK := func(now uint64) (int, bool) {
		cur := now - now%500
		n := adm[cur] + adm[cur-500]
		return n, float64(n) <= c.T+1e-9
	}
	perSec := map[uint64]int{}
	t0 := clk.Ms()
	lastAdmit := t0
	phase := func(dur uint64, demand func(t uint64) int, label string, checkStarve bool) bool {
		end := clk.Ms() + dur
		for clk.Ms() < end {
			now := clk.Ms()
			for k, n := 0, demand(now); k < n; k++ {
				if try(res) {
					adm[now-now%500]++
					perSec[now/1000]++
					lastAdmit = now
					if n, ok := windowOK(now); !ok {
						fail("W1:window-exceeds-threshold", fmt.Sprintf("%s: %d tokens admitted in the aligned 1 s window ending at bucket %d, configured threshold %v (effective threshold not finite or above the configured one)", label, n, now-now%500, c.T))
						return false
					}
				}
			}
			if checkStarve && c.T >= 1 && now-lastAdmit > horizon {
				fail("W4:starved", fmt.Sprintf("%s: steady single-token demand has not been admitted once for %d s (threshold %v >= 1)", label, (now-lastAdmit)/1000, c.T))
				return false
			}
			clk.AddMs(step)
		}
		return true
	}
	saturate := func(uint64) int { return int(c.T) + 3 }
	one := func(uint64) int { return 1 }
	sec := func() uint64 { return clk.Ms() / 1000 }
	switch c.Hist {
	case "saturate", "saturate-idle-saturate":
		s0 := sec()
		if !phase(horizon+2000, saturate, "saturating demand", false) {
			return
		}
		// W2: the first full second (cold start) admits about T/cold
		if got, lim := perSec[s0], int(math.Ceil(c.T/c.cold()))+1; got > lim {
			fail("W2:cold-start-too-hot", fmt.Sprintf("first second after (cold) start admitted %d tokens, expected at most ceil(T/cold)+1 = %d", got, lim))
			return
		}
		// W3: after 3*period+10 s of saturating demand the full rate is reached
		if got := perSec[sec()-1]; float64(got) < math.Floor(c.T)-1 {
			fail("W3:never-reaches-threshold", fmt.Sprintf("after %d s of saturating demand the last full second admitted %d tokens, threshold %v", horizon/1000+2, got, c.T))
			return
		}
		if c.Hist == "saturate-idle-saturate" {
			idle := uint64(2*c.Period+2)*1000 + 1000
			clk.AddMs(idle)
			clk.SetMs(clk.Ms() - clk.Ms()%1000)
			s1 := sec()
			if !phase(1000, saturate, "saturating demand after idle", false) {
				return
			}
			if got, lim := perSec[s1], int(math.Ceil(c.T/c.cold()))+1; got > lim {
				fail("W2:cold-start-too-hot", fmt.Sprintf("first second after %d s of idleness admitted %d tokens, expected at most ceil(T/cold)+1 = %d", idle/1000, got, lim))
				return
			}
		}
	case "flood-then-rule":
		// a few requests in the second after the flood (the first synchronisation), then idleness long enough for a
		// cold start, then saturating demand: the first second must again be cold
		if !phase(1000, saturate, "second after the unlimited flood", false) {
			return
		}
		idle := uint64(2*c.Period+2)*1000 + 1000
		clk.AddMs(idle)
		clk.SetMs(clk.Ms() - clk.Ms()%1000)
		s1 := sec()
		if !phase(horizon+2000, saturate, "saturating demand after flood and idle", false) {
			return
		}
		if got, lim := perSec[s1], int(math.Ceil(c.T/c.cold()))+1; got > lim {
			fail("W2:cold-start-too-hot", fmt.Sprintf("the resource ran unlimited far above the threshold before the rule was loaded; first second after %d s of idleness admitted %d tokens, expected at most ceil(T/cold)+1 = %d", idle/1000, got, lim))
			return
		}
		if got := perSec[sec()-1]; float64(got) < math.Floor(c.T)-1 {
			fail("W3:never-reaches-threshold", fmt.Sprintf("after %d s of saturating demand the last full second admitted %d tokens, threshold %v", horizon/1000+2, got, c.T))
			return
		}
	case "sparse":
		if !phase(2*horizon+5000, one, "one request per tick", true) {
			return
		}
	case "bursty":
		if !phase(2*horizon, func(t uint64) int {
			if (t/1000)%7 < 2 {
				return int(c.T) + 3
			}
			if (t/1000)%7 == 4 {
				return 1
			}
			return 0
		}, "bursty demand", false) {
			return
		}
	}
	tot := 0
	for _, v := range perSec {
		tot += v
	}
	run.Count("warmup_admissions", int64(tot))
	run.Distinct(vk.Hash(c.T, c.Period, c.Cold, c.Hist, c.Throttle))
}

// ------------------------------------------------------------------ memory adaptive

type memCase struct {
	LowThr   int64   `json:"low_mem_threshold"`
	HighThr  int64   `json:"high_mem_threshold"`
	LowMark  int64   `json:"low_water_mark"`
	HighMark int64   `json:"high_water_mark"`
	Usages   []int64 `json:"usages"`
	// Reload: the rule replaces a predecessor that differs from it in exactly this one field (high-mark | low-mark |
	// low-thr | high-thr); the envelope in force is the one of the rule loaded last
	Reload   string `json:"reloaded_with_new,omitempty"`
	WholeSet bool   `json:"whole_set_reload,omitempty"`
	Note     string `json:"note,omitempty"`
}

func measure(res string, limit int) int {
	n := 0
	for n < limit && try(res) {
		n++
	}
	return n
}

// measureBig finds the effective threshold of an empty window by bisection on the batch count (a request of batch b
// is admitted into an empty window iff b <= threshold): thresholds up to 2^32-1 in 32 probes, each in a fresh window.
func measureBig(res string) int64 {
	lo, hi := int64(0), int64(1)<<32-1 // invariant: batch lo is admitted (0 trivially), batch hi+1 is not
	for lo < hi {
		mid := lo + (hi-lo+1)/2
		clk.AddMs(3000)
		e, b := sentinel.Entry(res, sentinel.WithBatchCount(uint32(mid)))
		if b == nil {
			e.Exit()
			lo = mid
		} else {
			hi = mid - 1
		}
	}
	return lo
}

func runMem(idx int, c *memCase) {
	caseNo++
	res := fmt.Sprintf("c11-m-%d", caseNo)
	if c.Reload != "" {
		p := &flow.Rule{ID: res, Resource: res, TokenCalculateStrategy: flow.MemoryAdaptive, ControlBehavior: flow.Reject,
			LowMemUsageThreshold: c.LowThr, HighMemUsageThreshold: c.HighThr, MemLowWaterMarkBytes: c.LowMark, MemHighWaterMarkBytes: c.HighMark}
		switch c.Reload {
		case "high-mark":
			p.MemHighWaterMarkBytes = c.HighMark*3 + 1000
		case "low-mark":
			p.MemLowWaterMarkBytes = c.LowMark/2 + 1
		case "low-thr":
			p.LowMemUsageThreshold = c.LowThr + 7
		case "high-thr":
			p.HighMemUsageThreshold = (c.HighThr + 1) / 2
		}
		// (a predecessor the host's memory size rejects simply makes this a first load)
		if _, err := flow.LoadRulesOfResource(res, []*flow.Rule{p}); err == nil && len(flow.GetRulesOfResource(res)) == 1 {
			system_metric.SetSystemMemoryUsage(p.MemLowWaterMarkBytes)
			measure(res, 3)
			clk.AddMs(5000)
			run.Count("memory_reloads", 1)
		}
	}
	if c.WholeSet {
		all := []*flow.Rule{}
		for _, r := range flow.GetRules() {
			if r.Resource != res {
				x := r
				all = append(all, &x)
			}
		}
		all = append(all, &flow.Rule{ID: res, Resource: res, TokenCalculateStrategy: flow.MemoryAdaptive, ControlBehavior: flow.Reject,
			LowMemUsageThreshold: c.LowThr, HighMemUsageThreshold: c.HighThr, MemLowWaterMarkBytes: c.LowMark, MemHighWaterMarkBytes: c.HighMark})
		if _, err := flow.LoadRules(all); err != nil {
			run.Violation("C11/memory:load-error", err.Error(), c)
			return
		}
	} else if _, err := flow.LoadRulesOfResource(res, []*flow.Rule{{ID: res, Resource: res, TokenCalculateStrategy: flow.MemoryAdaptive, ControlBehavior: flow.Reject,
		LowMemUsageThreshold: c.LowThr, HighMemUsageThreshold: c.HighThr, MemLowWaterMarkBytes: c.LowMark, MemHighWaterMarkBytes: c.HighMark}}); err != nil {
		run.Violation("C11/memory:load-error", err.Error(), c)
		return
	}
	defer flow.ClearRulesOfResource(res)
	if len(flow.GetRulesOfResource(res)) == 0 {
		run.Count("memory_rules_rejected_by_host_memory_size", 1)
		return
	}
	fail := func(clause, msg string) {
		c.Note = msg
		run.Violation("C11/memory:"+clause, fmt.Sprintf("[low/high threshold %d/%d, marks %d/%d] %s", c.LowThr, c.HighThr, c.LowMark, c.HighMark, msg), c)
	}
	prevUsage, prevThr := int64(-1), -1
	for _, u := range c.Usages {
		system_metric.SetSystemMemoryUsage(u)
		clk.AddMs(5000)
		var got int
		if c.LowThr > 100000 {
			got = int(measureBig(res))
		} else {
			got = measure(res, int(c.LowThr)+5)
		}
		switch {
		case got > int(c.LowThr) || got < int(c.HighThr):
			fail("outside-envelope", fmt.Sprintf("memory usage %d: effective threshold %d is outside [%d,%d]", u, got, c.HighThr, c.LowThr))
			return
		case u <= c.LowMark && got != int(c.LowThr):
			fail("low-mark", fmt.Sprintf("memory usage %d <= low water mark: effective threshold %d, expected the low-memory threshold %d", u, got, c.LowThr))
			return
		case u >= c.HighMark && got != int(c.HighThr):
			fail("high-mark", fmt.Sprintf("memory usage %d >= high water mark: effective threshold %d, expected the high-memory threshold %d", u, got, c.HighThr))
			return
		case prevUsage >= 0 && u >= prevUsage && got > prevThr:
			fail("not-monotone", fmt.Sprintf("memory usage rose from %d to %d but the effective threshold rose from %d to %d", prevUsage, u, prevThr, got))
			return
		}
		prevUsage, prevThr = u, got
	}
	run.Count("memory_measurements", int64(len(c.Usages)))
	run.Distinct(vk.Hash(c.LowThr, c.HighThr, c.LowMark, c.HighMark, c.Reload, c.WholeSet))
}

// ---- cooperative engine: tc_warm_up.go compiled against the shimmed atomics. After a warm phase and an idle period
// (or on the very first use of the rule) 2-3 callers issue their requests at the same instant, interleaved at every
// atomic access of the calculator: however the token synchronisation of the new second is interleaved, the first
// second after the idleness is a cold start (W2).
type coopCase struct {
	T       float64 `json:"threshold"`
	Period  uint32  `json:"period_s"`
	Warm    bool    `json:"warm_phase_before_idle"`
	Workers []int   `json:"requests_per_caller"`
	Strat   string  `json:"strategy"`
	Choices []byte  `json:"choices,omitempty"`
}

func coopEngine() {
	run = vk.Start("C11", "coop")
	defer run.Finish()
	run.Rule("schedule = (warm-up rule threshold 6-12, cold factor 3, period 1-2 s; optional warm phase of 3*period+4 s of saturating demand then 2*period+3 s of idleness; 2-3 callers x 1-3 single-token requests at the same instant; choice sequence at every atomic access of tc_warm_up.go) under random walk, PCT d<=3 and bounded DFS; admitted in that first second <= ceil(T/cold)+1, every caller terminates; distinct = distinct (case, interleaving).")
	run.Assume("Go atomics sequentially consistent; the statistic read (previous-second QPS) is atomic w.r.t. the callers")
	clk = vclock.New(1900000000000)
	{
		c0 := atomic.LoadUint64(&vatomic.Count)
		flow.LoadRulesOfResource("c11-calib", []*flow.Rule{{ID: "c", Resource: "c11-calib", TokenCalculateStrategy: flow.WarmUp, ControlBehavior: flow.Reject, Threshold: 10, WarmUpPeriodSec: 1, WarmUpColdFactor: 3}})
		try("c11-calib")
		flow.ClearRulesOfResource("c11-calib")
		if atomic.LoadUint64(&vatomic.Count) == c0 {
			run.Inconclusive("observability: a request through a warm-up rule executed no shimmed atomic access (was the calculator moved out of core/flow/tc_warm_up.go?) - no interleaving can be explored")
			return
		}
	}
	gen := func(rng *rand.Rand) *coopCase {
		c := &coopCase{T: float64(vk.PickI(rng, 6, 9, 12)), Period: uint32(1 + rng.Intn(2)), Warm: rng.Intn(4) != 0}
		for w, k := 0, 2+rng.Intn(2); w < k; w++ {
			c.Workers = append(c.Workers, 1+rng.Intn(3))
		}
		return c
	}
	do := func(c *coopCase, ch coop.Chooser) {
		caseNo++
		res := fmt.Sprintf("c11co-%d", caseNo)
		flow.LoadRulesOfResource(res, []*flow.Rule{{ID: res, Resource: res, TokenCalculateStrategy: flow.WarmUp, ControlBehavior: flow.Reject, Threshold: c.T, WarmUpPeriodSec: c.Period, WarmUpColdFactor: 3}})
		defer flow.ClearRulesOfResource(res)
		clk.AddMs(100000)
		clk.SetMs(clk.Ms() - clk.Ms()%1000)
		if c.Warm {
			for end := clk.Ms() + uint64(3*c.Period+4)*1000; clk.Ms() < end; clk.AddMs(50) {
				for k := 0; k < int(c.T)+3; k++ {
					try(res)
				}
			}
			clk.AddMs(uint64(2*c.Period+3) * 1000)
			clk.SetMs(clk.Ms() - clk.Ms()%1000 + 1)
		}
		admitted := 0
		fns := make([]func(), len(c.Workers))
		for w := range c.Workers {
			w := w
			fns[w] = func() {
				for k := 0; k < c.Workers[w]; k++ {
					if try(res) {
						admitted++
					}
				}
			}
		}
		r := coop.Run(ch, coop.Options{Adversarial: 1000, FairTail: 10000}, fns...)
		if r.Stuck {
			run.Abort("scheduler: a worker did not reach a yield point (wall-clock guard); the process is abandoned")
		}
		c.Choices = r.Choices
		if len(r.NonTerminated) > 0 {
			run.Violation("C11/coop:non-termination", fmt.Sprintf("callers %v did not return within 10000 fair steps", r.NonTerminated), c)
			return
		}
		for w, p := range r.Panics {
			run.Violation("C11/coop:panic", fmt.Sprintf("caller %d panicked: %s", w, p), c)
			return
		}
		if lim := int(math.Ceil(c.T/3)) + 1; admitted > lim {
			run.Violation("C11/coop:W2:cold-start-too-hot", fmt.Sprintf("[T=%v period=%ds cold=3 warm-phase=%v] the concurrent callers of the first second after the idleness were admitted %d tokens, expected at most ceil(T/cold)+1 = %d", c.T, c.Period, c.Warm, admitted, lim), c)
			return
		}
		run.Distinct(vk.Hash(c.T, c.Period, c.Warm, c.Workers, string(r.Choices)))
	}
	n := run.N(1500, 100000)
	for i := 0; i < n; i++ {
		if run.Skip(i) {
			continue
		}
		rng := run.Rand(i)
		c := gen(rng)
		var ch coop.Chooser
		if i%4 == 0 {
			c.Strat = "random"
			ch = &coop.Random{R: rng}
		} else {
			d := 1 + rng.Intn(3)
			c.Strat = fmt.Sprintf("pct-d%d", d)
			ch = coop.NewPCT(rng, len(c.Workers), d, 30)
		}
		run.Eval(i)
		if i < 2 {
			run.Sample(c)
		}
		do(c, ch)
	}
	if !run.Replaying() {
		for j, nd := 0, run.N(2, 30); j < nd; j++ {
			c := gen(run.Rand(6_000_000 + j))
			c.Workers = c.Workers[:2]
			c.Strat = "dfs-2-preemptions"
			d := &coop.DFS{MaxPreempt: 2}
			cnt := 0
			for d.Next() && cnt < 3000 {
				cnt++
				run.Eval(6_000_000 + j)
				cc := *c
				do(&cc, d)
			}
			run.Count("dfs_schedules", int64(cnt))
		}
	}
}

// ---- cooperative engine for the memory-adaptive rule: the memory reading changes (another worker stores new readings,
// across the water marks) while requests are being checked, interleaved at every shimmed access of the reading.
// Whatever reading a check happens to see, the effective threshold lies in [high-memory threshold, low-memory
// threshold]: a batch equal to the high-memory threshold fits an empty window, a batch above the low-memory one never.
type memCoopCase struct {
	LowThr, HighThr   int64
	LowMark, HighMark int64
	Readings          []int64 `json:"readings_stored_by_the_toggler"`
	Callers           int     `json:"callers"`
	Strat             string  `json:"strategy"`
	Choices           []byte  `json:"choices,omitempty"`
}

func memCoopEngine() {
	run = vk.Start("C11", "coopmem")
	defer run.Finish()
	run.Rule("schedule = (memory-adaptive rule, low/high thresholds and water marks; one worker stores 4-8 memory readings below / between / above the marks, 1-2 callers check batches equal to the high-memory threshold (must fit an empty window) and one above the low-memory threshold (never fits); choice sequence at every shimmed access of the memory reading) under random walk, PCT d<=3 and bounded DFS. distinct = distinct (case, interleaving).")
	run.Assume("the reading is the only shared state; every check runs in a fresh statistic window")
	clk = vclock.New(1900000000000)
	{
		c0 := atomic.LoadUint64(&vatomic.Count)
		system_metric.SetSystemMemoryUsage(5)
		_ = system_metric.CurrentMemoryUsage()
		if atomic.LoadUint64(&vatomic.Count) == c0 {
			run.Inconclusive("observability: reading the memory usage executed no shimmed access (was it moved out of core/system_metric/sys_metric_stat.go?) - no interleaving can be explored")
			return
		}
	}
	gen := func(rng *rand.Rand) *memCoopCase {
		low := int64(20 + rng.Intn(1000))
		c := &memCoopCase{LowThr: low, HighThr: int64(1 + rng.Intn(int(low)-1)), LowMark: int64(1000 + rng.Intn(100000)), Callers: 1 + rng.Intn(2)}
		c.HighMark = c.LowMark + int64(1+rng.Intn(200000))
		for i, n := 0, 4+rng.Intn(5); i < n; i++ {
			c.Readings = append(c.Readings, vk.PickI64(rng, 1, c.LowMark-1, c.LowMark, c.LowMark+(c.HighMark-c.LowMark)/2, c.HighMark, c.HighMark+1, c.HighMark*3))
		}
		return c
	}
	do := func(c *memCoopCase, ch coop.Chooser) {
		caseNo++
		res := fmt.Sprintf("c11cm-%d", caseNo)
		system_metric.SetSystemMemoryUsage(c.LowMark)
		if _, err := flow.LoadRulesOfResource(res, []*flow.Rule{{ID: res, Resource: res, TokenCalculateStrategy: flow.MemoryAdaptive, ControlBehavior: flow.Reject,
			LowMemUsageThreshold: c.LowThr, HighMemUsageThreshold: c.HighThr, MemLowWaterMarkBytes: c.LowMark, MemHighWaterMarkBytes: c.HighMark}}); err != nil || len(flow.GetRulesOfResource(res)) == 0 {
			return
		}
		defer flow.ClearRulesOfResource(res)
		bad := ""
		fns := []func(){func() {
			for _, u := range c.Readings {
				system_metric.SetSystemMemoryUsage(u)
				coop.Yield("stored")
			}
		}}
		for k := 0; k < c.Callers; k++ {
			fns = append(fns, func() {
				for j := 0; j < 3; j++ {
					clk.AddMs(3000)
					e, b := sentinel.Entry(res, sentinel.WithBatchCount(uint32(c.HighThr)))
					if b != nil {
						bad = fmt.Sprintf("a batch of %d (the high-memory threshold, the smallest the effective threshold may be) was rejected in an empty window", c.HighThr)
					} else {
						e.Exit()
					}
					clk.AddMs(3000)
					e, b = sentinel.Entry(res, sentinel.WithBatchCount(uint32(c.LowThr+1)))
					if b == nil {
						bad = fmt.Sprintf("a batch of %d (one above the low-memory threshold, the largest the effective threshold may be) was admitted", c.LowThr+1)
						e.Exit()
					}
				}
			})
		}
		r := coop.Run(ch, coop.Options{Adversarial: 1500, FairTail: 10000}, fns...)
		if r.Stuck {
			run.Abort("scheduler: a worker did not reach a yield point (wall-clock guard); the process is abandoned")
		}
		c.Choices = r.Choices
		if len(r.NonTerminated) > 0 {
			run.Violation("C11/coopmem:non-termination", fmt.Sprintf("workers %v did not return within 10000 fair steps", r.NonTerminated), c)
			return
		}
		for w, p := range r.Panics {
			run.Violation("C11/coopmem:panic", fmt.Sprintf("worker %d panicked: %s", w, p), c)
			return
		}
		if bad != "" {
			run.Violation("C11/coopmem:outside-envelope", fmt.Sprintf("[low/high threshold %d/%d, marks %d/%d, readings changing meanwhile] %s", c.LowThr, c.HighThr, c.LowMark, c.HighMark, bad), c)
			return
		}
		run.Distinct(vk.Hash(c.LowThr, c.HighThr, c.LowMark, c.HighMark, c.Readings, c.Callers, string(r.Choices)))
	}
	n := run.N(1500, 100000)
	for i := 0; i < n; i++ {
		if run.Skip(i) {
			continue
		}
		rng := run.Rand(i)
		c := gen(rng)
		var ch coop.Chooser
		if i%4 == 0 {
			c.Strat = "random"
			ch = &coop.Random{R: rng}
		} else {
			d := 1 + rng.Intn(3)
			c.Strat = fmt.Sprintf("pct-d%d", d)
			ch = coop.NewPCT(rng, 1+c.Callers, d, 40)
		}
		run.Eval(i)
		if i < 2 {
			run.Sample(c)
		}
		do(c, ch)
	}
	if !run.Replaying() {
		for j, nd := 0, run.N(2, 30); j < nd; j++ {
			c := gen(run.Rand(9_500_000 + j))
			c.Callers = 1
			c.Strat = "dfs-2-preemptions"
			d := &coop.DFS{MaxPreempt: 2}
			cnt := 0
			for d.Next() && cnt < 5000 {
				cnt++
				run.Eval(9_500_000 + j)
				cc := *c
				do(&cc, d)
			}
			run.Count("dfs_schedules", int64(cnt))
		}
	}
}

func main() {
	sx.Quiet()
	if os.Getenv("VERIF_MODE") == "coopmem" {
		memCoopEngine()
		return
	}
	if os.Getenv("VERIF_MODE") == "coop" {
		coopEngine()
		return
	}
	run = vk.Start("C11", "seq")
	defer run.Finish()
	run.Rule("case = warm-up rule (threshold 0.5-1000, period 1-30 s, cold factor default/2-10) x demand history (saturating, saturating-idle-saturating, one request per 10/20 ms tick, bursty, unlimited flood before the rule is loaded then idle then saturating) simulated at 10-20 ms resolution for 3*period+10 virtual seconds and more: W1 admitted tokens per aligned 1 s window <= threshold, W2 first second after a cold start <= ceil(T/cold)+1, W3 full rate (>= floor(T)-1 per second) after 3*period+10 s of saturating demand, W4 (T>=1) steady single-token demand admitted at least once per 3*period+10 s; or memory-adaptive rule x monotone sweep of injected memory readings: measured threshold (admissions in an empty frozen window) equals the low/high-memory threshold at/below/above the water marks, stays in the envelope and is non-increasing in usage. distinct = distinct configurations.")
	run.Assume("thresholds are measured behaviourally through api.Entry (a NaN / infinite threshold shows as a window exceeding the configured threshold)", "W2/W3/W4 tolerances as stated (integer admissions per window)")
	clk = vclock.New(1900000000000)
	n := run.N(180, 3000)
	Ts := []float64{0.5, 1, 1, 2, 3, 5, 10, 100, 1000}
	for i := 0; i < n; i++ {
		if run.Skip(i) {
			continue
		}
		rng := run.Rand(i)
		if i%4 == 3 {
			low := int64(5 + rng.Intn(60))
			c := &memCase{LowThr: low, HighThr: int64(1 + rng.Intn(int(low)-1)), LowMark: int64(1000 + rng.Intn(100000))}
			c.HighMark = c.LowMark + int64(1+rng.Intn(200000))
			if rng.Intn(4) == 0 {
				c.HighMark = c.LowMark + 1
			}
			if rng.Intn(3) == 0 {
				// large figures: thresholds near 2^32 and water marks in the GiB range (as far as the host's memory
				// size allows): the interpolation must not overflow or lose the envelope
				c.LowThr = int64(1e9) + rng.Int63n(int64(3e9))
				c.HighThr = vk.PickI64(rng, 1, 1000, c.LowThr/2, c.LowThr-1)
				c.LowMark = int64(1<<20) + rng.Int63n(1<<30)
				top := int64(system_metric.TotalMemorySize)
				if top > 1<<40 {
					top = 1 << 40
				}
				if top > c.LowMark+2 {
					c.HighMark = c.LowMark + 1 + rng.Int63n(top-c.LowMark-1)
				} else {
					c.HighMark = c.LowMark + 1
				}
			}
			if rng.Intn(3) == 0 {
				c.Reload = vk.PickS(rng, "high-mark", "high-mark", "low-mark", "low-thr", "high-thr")
				c.WholeSet = rng.Intn(2) == 0
			}
			u := int64(0)
			for k := 0; k < 14; k++ {
				switch rng.Intn(6) {
				case 0:
					u = c.LowMark
				case 1:
					u = c.HighMark
				case 2:
					u = c.LowMark + (c.HighMark-c.LowMark)/2
				default:
					u += rng.Int63n((c.HighMark-c.LowMark)/3 + 2)
				}
				c.Usages = append(c.Usages, u)
			}
			// a monotone sweep (the monotonicity clause compares consecutive readings)
			for a := 1; a < len(c.Usages); a++ {
				if c.Usages[a] < c.Usages[a-1] {
					c.Usages[a] = c.Usages[a-1]
				}
			}
			c.Usages = append([]int64{1, c.LowMark - 1}, c.Usages...)
			c.Usages = append(c.Usages, c.HighMark+1, c.HighMark*2)
			sortInts(c.Usages)
			run.Begin(i, c)
			if i < 8 {
				run.Sample(c)
			}
			run.Guard("C11/memory:panic", c, func() { runMem(i, c) })
			continue
		}
		c := &warmCase{T: Ts[rng.Intn(len(Ts))], Period: uint32(vk.PickI(rng, 1, 1, 2, 3, 5, 10, 10, 30)), Cold: vk.PickU32(rng, 0, 0, 2, 3, 5, 10),
			Hist: vk.PickS(rng, "saturate", "saturate-idle-saturate", "sparse", "bursty", "flood-then-rule")}
		if c.Hist == "flood-then-rule" && c.T > 100 {
			c.T = 100
		}
		if rng.Intn(5) == 0 && c.T >= 1 {
			c.Throttle = true
			if c.T > 10 {
				c.T = 10 // (the demand arrives in 10-20 ms ticks: a paced rate above 50/s could not be observed)
			}
		}
		if rng.Intn(4) == 0 {
			if oc := vk.PickU32(rng, 2, 3, 4, 5, 10, 0); oc != c.Cold {
				c.Over, c.OverCold = true, oc
			}
		}
		run.Begin(i, c)
		if i < 3 {
			run.Sample(c)
		}
		run.Guard("C11/warmup:panic", c, func() { runWarm(i, c) })
	}
}

func sortInts(a []int64) {
	for i := 1; i < len(a); i++ {
		for j := i; j > 0 && a[j] < a[j-1]; j-- {
			a[j], a[j-1] = a[j-1], a[j]
		}
	}
}
