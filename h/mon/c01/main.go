// C01 sequential monitor: Entry/Exit accounting ledger vs. the node statistics,
// the recording statistic slot and the state of all live entries.
package main

import (
	"fmt"
	"math/rand"
	"reflect"

	sentinel "github.com/alibaba/sentinel-golang/api"
	"github.com/alibaba/sentinel-golang/core/base"
	cb "github.com/alibaba/sentinel-golang/core/circuitbreaker"
	"github.com/alibaba/sentinel-golang/core/flow"
	"github.com/alibaba/sentinel-golang/core/hotspot"
	"github.com/alibaba/sentinel-golang/core/isolation"
	"github.com/alibaba/sentinel-golang/core/stat"

	"verif/ref"
	"verif/sx"
	"verif/vclock"
	"verif/vk"
)

type op struct {
	K       string `json:"k"` // entry | trace | exit | late-exit | late-trace | adv
	Res     int    `json:"res,omitempty"`
	Batch   uint32 `json:"batch,omitempty"`
	Inbound bool   `json:"in,omitempty"`
	Args    string `json:"args,omitempty"` // none | s | i | si | unhashable
	Boom    string `json:"boom,omitempty"` // "" | prepare-early | prepare | check-early | check-late
	Pick    int    `json:"pick,omitempty"`
	WithErr bool   `json:"err,omitempty"`
	Dt      uint64 `json:"dt,omitempty"`
}

type caseDesc struct {
	Ops    []op   `json:"ops"`
	FailAt int    `json:"fail_at,omitempty"`
	Note   string `json:"note,omitempty"`
}

const nRes = 5

var run *vk.Run
var clk *vclock.Clock
var chain *base.SlotChain
var caseNo int

// recorder ---------------------------------------------------------------
type recInfo struct {
	pass, block, done int
	doneErr           error
	doneRt            uint64
	doneRes           string
	passRes           string
}

var rec = map[int]*recInfo{}
var boomFired bool

func rid(ctx *base.EntryContext) int {
	if v, ok := ctx.Input.Attachments["rid"].(int); ok {
		return v
	}
	return -1
}
func ri(id int) *recInfo {
	r := rec[id]
	if r == nil {
		r = &recInfo{}
		rec[id] = r
	}
	return r
}

type recorder struct{}

func (recorder) Order() uint32 { return 1 << 31 }
func (recorder) OnEntryPassed(ctx *base.EntryContext) {
	r := ri(rid(ctx))
	r.pass++
	r.passRes = ctx.Resource.Name()
}
func (recorder) OnEntryBlocked(ctx *base.EntryContext, be *base.BlockError) { ri(rid(ctx)).block++ }
func (recorder) OnCompleted(ctx *base.EntryContext) {
	r := ri(rid(ctx))
	r.done++
	r.doneErr = ctx.Err()
	r.doneRt = ctx.Rt()
	r.doneRes = ctx.Resource.Name()
}

type boomPre struct {
	ord  uint32
	name string
}

func (b boomPre) Order() uint32 { return b.ord }
func (b boomPre) Prepare(ctx *base.EntryContext) {
	if ctx.Input.Attachments["boom"] == b.name {
		boomFired = true
		panic("monitor prepare slot panic: " + b.name)
	}
}

type boomChk struct {
	ord  uint32
	name string
}

func (b boomChk) Order() uint32 { return b.ord }
func (b boomChk) Check(ctx *base.EntryContext) *base.TokenResult {
	if ctx.Input.Attachments["boom"] == b.name {
		boomFired = true
		panic("monitor rule-check slot panic: " + b.name)
	}
	return nil
}

// ------------------------------------------------------------------------

func genCase(rng *rand.Rand) *caseDesc {
	c := &caseDesc{}
	n := 25 + rng.Intn(60)
	panicky := rng.Intn(3) == 0
	lately := rng.Intn(3) == 0
	for i := 0; i < n; i++ {
		var o op
		switch k := rng.Intn(20); {
		case k < 8:
			o.K = "entry"
			o.Res = rng.Intn(nRes)
			o.Batch = vk.PickU32(rng, 1, 1, 1, 1, 2, 3, 0, 7, 1<<31, 0xFFFFFFFF)
			o.Inbound = rng.Intn(3) == 0
			o.Args = vk.PickS(rng, "none", "none", "s", "i", "si", "s2")
			if panicky && rng.Intn(4) == 0 {
				switch rng.Intn(5) {
				case 0:
					o.Res = 3
					o.Args = "unhashable"
				case 1:
					o.Boom = "prepare-early"
				case 2:
					o.Boom = "prepare"
				case 3:
					o.Boom = "check-early"
				default:
					o.Boom = "check-late"
				}
			}
		case k < 10:
			o.K = "trace"
			o.Pick = rng.Intn(1 << 20)
		case k < 15:
			o.K = "exit"
			o.Pick = rng.Intn(1 << 20)
			o.WithErr = rng.Intn(4) == 0
		case k < 17:
			if lately {
				o.K = vk.PickS(rng, "late-exit", "late-exit", "late-trace")
				o.WithErr = rng.Intn(2) == 0
				o.Pick = rng.Intn(1 << 20)
			} else {
				o.K = "adv"
				o.Dt = uint64(rng.Intn(300))
			}
		default:
			o.K = "adv"
			o.Dt = []uint64{0, 1, 7, 50, 250, 499, 500, 501, 1000, 1500, 12000, 61000, 100000}[rng.Intn(13)]
		}
		c.Ops = append(c.Ops, o)
	}
	return c
}

func mkArgs(kind string) []interface{} {
	switch kind {
	case "s":
		return []interface{}{"a"}
	case "s2":
		return []interface{}{"b", "c", 3.5}
	case "i":
		return []interface{}{7}
	case "si":
		return []interface{}{"x", 9}
	case "unhashable":
		return []interface{}{[]int{1}}
	}
	return nil
}

type liveE struct {
	e         *base.SentinelEntry
	rid       int
	res       int
	batch     uint32
	inbound   bool
	args      []interface{}
	err       error // last error traced by the caller
	start     uint64
	panicked  bool
	origPanic bool
	counted   bool // the statistic phase saw it as passed
}

type ledger struct {
	w        *ref.Win
	inflight int64
}

var inb = &ledger{w: ref.NewWin(20, 10000)}

func runCase(idx int, c *caseDesc) {
	caseNo++
	names := make([]string, nRes)
	for i := range names {
		names[i] = fmt.Sprintf("c01-%d-%d", caseNo, i)
	}
	flow.LoadRules([]*flow.Rule{{Resource: names[1], TokenCalculateStrategy: flow.Direct, ControlBehavior: flow.Reject, Threshold: 3}})
	isolation.LoadRules([]*isolation.Rule{{Resource: names[2], MetricType: isolation.Concurrency, Threshold: 2}})
	hotspot.LoadRules([]*hotspot.Rule{{Resource: names[3], MetricType: hotspot.QPS, ControlBehavior: hotspot.Reject, ParamIndex: 0, Threshold: 2, DurationInSec: 1}})
	cb.LoadRules([]*cb.Rule{{Resource: names[4], Strategy: cb.ErrorCount, RetryTimeoutMs: 500, MinRequestAmount: 1, StatIntervalMs: 1000, Threshold: 2}})
	// the inbound node is process-global: after a case that ended in a violation the shared
	// ledger may be out of step; re-base it on what the node reports now (the violation that
	// caused the drift has already been recorded by the case that produced it)
	if g := int64(stat.InboundNode().CurrentConcurrency()); g != inb.inflight {
		run.Count("inbound_ledger_rebased", 1)
		inb.inflight = g
	}
	led := make([]*ledger, nRes)
	for i := range led {
		led[i] = &ledger{w: ref.NewWin(20, 10000)}
	}
	var lives, exited []*liveE
	lateIssued, panicIssued := false, false
	ctxTag := func() string {
		s := ""
		if lateIssued {
			s += ":after-late-call"
		}
		if panicIssued {
			s += ":after-panicking-request"
		}
		return s
	}
	fail := func(i int, clause, msg string) {
		c.FailAt = i
		c.Note = msg
		run.Violation("C01/"+clause+ctxTag(), fmt.Sprintf("op %d (%s): %s", i, c.Ops[i].K, msg), c)
	}
	defer func() {
		// leave nothing in flight (the inbound ledger is shared by all cases)
		for _, l := range lives {
			finish(l, led, false, nil)
		}
	}()
	checkAll := func(i int) bool {
		now := clk.Ms()
		evn := [...]string{"pass", "block", "complete", "error", "rt"}
		chk := func(name string, node *stat.ResourceNode, l *ledger) bool {
			if node == nil {
				if l.inflight != 0 {
					fail(i, "node-missing", name+" has no statistic node although entries were admitted")
					return false
				}
				return true
			}
			if g := node.CurrentConcurrency(); int64(g) != l.inflight {
				cl := "gauge-mismatch"
				if g < 0 {
					cl = "gauge-negative"
				} else if l.inflight == 0 {
					cl = "gauge-nonzero-at-quiescence"
				}
				fail(i, cl, fmt.Sprintf("%s: CurrentConcurrency()=%d, entries in flight %d", name, g, l.inflight))
				return false
			}
			for ev := 0; ev < ref.EvTotal; ev++ {
				if got, want := node.GetSum(base.MetricEvent(ev)), l.w.Sum(ev, now, 1000); got != want {
					fail(i, "counter-mismatch:"+evn[ev], fmt.Sprintf("%s: GetSum(%s)=%d at t=%d, ledger %d", name, evn[ev], got, now, want))
					return false
				}
			}
			return true
		}
		for r := 0; r < nRes; r++ {
			if !chk(names[r], stat.GetResourceNode(names[r]), led[r]) {
				return false
			}
		}
		if !chk("inbound-total", stat.InboundNode(), inb) {
			return false
		}
		for _, l := range lives {
			ctx := l.e.Context()
			if ctx == nil || ctx.Entry() != l.e {
				fail(i, "live-entry-state:context-reassigned", fmt.Sprintf("live entry rid=%d no longer owns its context", l.rid))
				return false
			}
			if ctx.Resource == nil || ctx.Resource.Name() != names[l.res] {
				fail(i, "live-entry-state:resource", fmt.Sprintf("live entry rid=%d resource changed", l.rid))
				return false
			}
			if ctx.Input.BatchCount != l.batch {
				fail(i, "live-entry-state:batch", fmt.Sprintf("live entry rid=%d batch %d, was %d", l.rid, ctx.Input.BatchCount, l.batch))
				return false
			}
			if !(len(ctx.Input.Args) == 0 && len(l.args) == 0) && !reflect.DeepEqual(ctx.Input.Args, l.args) {
				fail(i, "live-entry-state:args", fmt.Sprintf("live entry rid=%d Input.Args=%v, caller passed %v", l.rid, ctx.Input.Args, l.args))
				return false
			}
			if !l.panicked && ctx.Err() != l.err {
				fail(i, "live-entry-state:err", fmt.Sprintf("live entry rid=%d Err()=%v, caller traced %v", l.rid, ctx.Err(), l.err))
				return false
			}
		}
		return true
	}
	for i, o := range c.Ops {
		switch o.K {
		case "adv":
			clk.AddMs(o.Dt)
		case "entry":
			if len(lives) >= 7 {
				continue
			}
			now := clk.Ms()
			ridCtr++
			id := ridCtr
			args := mkArgs(o.Args)
			opts := []sentinel.EntryOption{sentinel.WithSlotChain(chain), sentinel.WithBatchCount(o.Batch), sentinel.WithAttachment("rid", id)}
			if o.Inbound {
				opts = append(opts, sentinel.WithTrafficType(base.Inbound))
			}
			if args != nil {
				opts = append(opts, sentinel.WithArgs(args...))
			}
			if o.Boom != "" {
				opts = append(opts, sentinel.WithAttachment("boom", o.Boom))
			}
			boomFired = false
			var en *base.SentinelEntry
			var be *base.BlockError
			if run.Guard("C01/panic-escaped-Entry", c, func() { en, be = sentinel.Entry(names[o.Res], opts...) }) {
				return
			}
			// a panic inside the chain is observable: the monitor's own slot fired, or the library
			// recorded its "internal panic" error on the context of the returned entry
			willPanic := boomFired || (o.Args == "unhashable" && en != nil && en.Context().Err() != nil)
			if willPanic {
				panicIssued = true
			}
			if (en == nil) == (be == nil) {
				fail(i, "outcome:both-or-neither", "Entry returned both or neither of (entry, block error)")
				return
			}
			r := ri(id)
			if willPanic {
				run.Count("panicking_requests", 1)
				if en == nil {
					fail(i, "rule-check-panic:request-not-passed", fmt.Sprintf("request with a panicking slot/rule was rejected: %v", be))
					return
				}
				if !((r.pass == 0 || r.pass == 1) && r.block == 0) {
					fail(i, "rule-check-panic:callbacks", fmt.Sprintf("pass callbacks %d, block callbacks %d", r.pass, r.block))
					return
				}
			} else if be != nil {
				if r.pass != 0 || r.block != 1 {
					fail(i, "exactly-once:blocked-request-callbacks", fmt.Sprintf("blocked request rid=%d: pass callbacks %d, block callbacks %d", id, r.pass, r.block))
					return
				}
			} else if r.pass != 1 || r.block != 0 || r.passRes != names[o.Res] {
				fail(i, "exactly-once:passed-request-callbacks", fmt.Sprintf("passed request rid=%d: pass callbacks %d (on %q), block callbacks %d", id, r.pass, r.passRes, r.block))
				return
			}
			if be != nil {
				run.Count("blocked", 1)
				led[o.Res].w.Add(now, ref.EvBlock, int64(o.Batch))
				if o.Inbound {
					inb.w.Add(now, ref.EvBlock, int64(o.Batch))
				}
			} else {
				run.Count("passed", 1)
				l := &liveE{e: en, rid: id, res: o.Res, batch: o.Batch, inbound: o.Inbound, args: args, start: now, panicked: willPanic, origPanic: willPanic, counted: r.pass == 1}
				if l.counted {
					for _, ld := range ledgersOf(l, led) {
						ld.w.Add(now, ref.EvPass, int64(o.Batch))
						ld.inflight++
						ld.w.Conc(now, int32(ld.inflight))
					}
				}
				lives = append(lives, l)
			}
		case "trace":
			if len(lives) == 0 {
				continue
			}
			l := lives[o.Pick%len(lives)]
			l.err = fmt.Errorf("traced-%d-%d", l.rid, i)
			sentinel.TraceError(l.e, l.err)
			l.panicked = false // from now on the error is the caller's
		case "exit":
			if len(lives) == 0 {
				continue
			}
			k := o.Pick % len(lives)
			l := lives[k]
			lives = append(lives[:k], lives[k+1:]...)
			var xe error
			if o.WithErr {
				xe = fmt.Errorf("exit-%d-%d", l.rid, i)
			}
			if run.Guard("C01/panic-escaped-Exit", c, func() { finish(l, led, true, xe) }) {
				return
			}
			exited = append(exited, l)
			r := ri(l.rid)
			if r.done != r.pass || r.done > 1 {
				if l.origPanic {
					// request whose rule evaluation panicked: (pass, completion) must be (0,0) or (1,1)
					fail(i, "rule-check-panic:completion-without-pass", fmt.Sprintf("request rid=%d whose rule evaluation panicked: pass callbacks %d, completion callbacks %d", l.rid, r.pass, r.done))
				} else {
					fail(i, "exactly-once:completion-callbacks", fmt.Sprintf("entry rid=%d: pass callbacks %d, completion callbacks %d on first Exit", l.rid, r.pass, r.done))
				}
				return
			}
			if r.done == 1 {
				wantErr := l.err
				if xe != nil {
					wantErr = xe
				}
				errOK := r.doneErr == wantErr || (l.origPanic && wantErr == nil) // internal panic error is the library's own
				if !errOK || r.doneRt != clk.Ms()-l.start || r.doneRes != names[l.res] {
					fail(i, "attribution:completion", fmt.Sprintf("entry rid=%d completed with err=%v rt=%d res=%s; its own are err=%v rt=%d res=%s", l.rid, r.doneErr, r.doneRt, r.doneRes, wantErr, clk.Ms()-l.start, names[l.res]))
					return
				}
			}
		case "late-exit", "late-trace":
			if len(exited) == 0 {
				continue
			}
			l := exited[o.Pick%len(exited)]
			before := *ri(l.rid)
			lateIssued = lateIssued || o.WithErr || o.K == "late-trace"
			run.Count("late_calls", 1)
			if run.Guard("C01/panic-escaped-late-call", c, func() {
				if o.K == "late-trace" {
					sentinel.TraceError(l.e, fmt.Errorf("late-trace-%d", l.rid))
				} else if o.WithErr {
					l.e.Exit(base.WithError(fmt.Errorf("late-exit-%d", l.rid)))
				} else {
					l.e.Exit()
				}
			}) {
				return
			}
			if after := *ri(l.rid); after != before {
				fail(i, "idempotent-exit:callbacks-after-late-call", fmt.Sprintf("entry rid=%d: statistic callbacks ran again on a late call", l.rid))
				return
			}
		}
		if !checkAll(i) {
			return
		}
	}
	run.Count("ops", int64(len(c.Ops)))
	run.Distinct(vk.Hash(c.Ops))
}

var ridCtr int

func ledgersOf(l *liveE, led []*ledger) []*ledger {
	if l.inbound {
		return []*ledger{led[l.res], inb}
	}
	return []*ledger{led[l.res]}
}

// finish exits a live entry and books the completion in the ledger. With book=false
// (case teardown) the real exit still happens and the shared inbound ledger is kept in step.
func finish(l *liveE, led []*ledger, book bool, xe error) {
	now := clk.Ms()
	r := ri(l.rid)
	hadErr := l.err != nil || xe != nil
	if l.panicked && !hadErr {
		hadErr = l.e.Context() != nil && l.e.Context().Err() != nil
	}
	if xe != nil {
		l.e.Exit(base.WithError(xe))
	} else {
		l.e.Exit()
	}
	_ = book
	if l.counted || r.done > 0 {
		for _, ld := range ledgersOf(l, led) {
			if l.counted {
				ld.inflight--
			}
			if r.done > 0 || l.counted {
				ld.w.Add(now, ref.EvComplete, int64(l.batch))
				ld.w.Add(now, ref.EvRt, int64(now-l.start))
				if hadErr {
					ld.w.Add(now, ref.EvError, int64(l.batch))
				}
			}
		}
	}
}

func main() {
	sx.Quiet()
	run = vk.Start("C01", "seq")
	defer run.Finish()
	run.Rule("case = 25-85 ops over 5 resources (plain, flow-limited, isolation-limited, hot-param-limited, breaker-guarded): Entry (batch 0..2^32-1, inbound/outbound, args incl. an unhashable one that makes the hot-param check panic, monitor prepare/rule-check slots that panic on demand), TraceError, Exit, Exit(WithError), late Exit / Exit(WithError) / TraceError on exited entries, clock advances. After every op: every resource node and the inbound node (GetSum of 5 events, CurrentConcurrency) vs. the ledger; recorder callbacks exactly-once with own err/rt/resource; every live entry's Err/Args/BatchCount/Resource/owner vs. its snapshot. distinct = distinct op sequences.")
	run.Assume("GOMAXPROCS=1 (sync.Pool LIFO: maximal reuse of pooled contexts/options)", "panics inside user statistic slots / exit handlers are outside the domain")
	// the inbound node was created at package init under the REAL clock: virtual time must be later
	clk = vclock.New(1900000000000)
	chain = sentinel.BuildDefaultSlotChain()
	chain.AddStatPrepareSlot(boomPre{1, "prepare-early"})
	chain.AddStatPrepareSlot(boomPre{5000, "prepare"})
	chain.AddRuleCheckSlot(boomChk{1, "check-early"})
	chain.AddRuleCheckSlot(boomChk{1 << 30, "check-late"})
	chain.AddStatSlot(recorder{})
	n := run.N(400, 20000)
	for i := 0; i < n; i++ {
		if run.Skip(i) {
			continue
		}
		c := genCase(run.Rand(i))
		run.Begin(i, c)
		if i < 2 {
			cc := *c
			if len(cc.Ops) > 14 {
				cc.Ops = cc.Ops[:14]
			}
			run.Sample(cc)
		}
		run.Guard("C01/panic-in-monitor", c, func() { runCase(i, c) })
		clk.AddMs(20000) // leave the window of the previous case
		if len(rec) > 50000 {
			rec = map[int]*recInfo{}
		}
	}
	// a process that has seen very many resource names (more than the 10000 the library warns about): the outcomes of
	// a request on one more, new resource are still counted, on that resource and on the inbound total
	if i := n; !run.Skip(i) {
		d := map[string]interface{}{"resources_seen_before": 10050}
		run.Begin(i, d)
		run.Guard("C01/panic-in-monitor", d, func() { manyResources(i) })
	}
}

func manyResources(idx int) {
	clk.AddMs(20000)
	for k := 0; k < 10050; k++ {
		if e, b := sentinel.Entry(fmt.Sprintf("c01-many-%d-%d", idx, k)); b == nil {
			e.Exit()
		}
	}
	in := stat.InboundNode()
	p0, c0 := in.GetSum(base.MetricEventPass), in.GetSum(base.MetricEventComplete)
	name := fmt.Sprintf("c01-many-%d-last", idx)
	e, b := sentinel.Entry(name, sentinel.WithTrafficType(base.Inbound), sentinel.WithBatchCount(2))
	if b != nil || e == nil {
		run.Violation("C01/many-resources:rejected", fmt.Sprintf("a request on a new resource after 10050 others was rejected: %v", b), map[string]interface{}{"case": idx})
		return
	}
	g := in.CurrentConcurrency()
	e.Exit()
	p1, c1, g1 := in.GetSum(base.MetricEventPass), in.GetSum(base.MetricEventComplete), in.CurrentConcurrency()
	var rp, rc int64 = -1, -1
	if rn := stat.GetResourceNode(name); rn != nil {
		rp, rc = rn.GetSum(base.MetricEventPass), rn.GetSum(base.MetricEventComplete)
	}
	if p1-p0 != 2 || c1-c0 != 2 || g != 1 || g1 != 0 || rp != 2 || rc != 2 {
		run.Violation("C01/many-resources:outcome-not-counted", fmt.Sprintf("inbound request (batch 2) on a new resource after 10050 other resources: inbound pass +%d complete +%d (want +2, +2), inbound in-flight %d while live and %d after exit (want 1, 0), on the resource pass %d complete %d (want 2, 2; -1 = no node)", p1-p0, c1-c0, g, g1, rp, rc), map[string]interface{}{"case": idx})
	}
	stat.ResetResourceNodeMap()
	run.Count("many_resources_cases", 1)
}
