// C01 concurrent monitor: many goroutines run Entry/TraceError/Exit sequences on
// shared resources while the virtual clock is frozen; at every barrier (nothing in
// flight) the gauges must be exactly zero and the window sums must equal the
// client-side tallies. Built with -race.
package main

import (
	"runtime"
	"os"
	"errors"
	"fmt"
	"math/rand"
	"sync"
	"sync/atomic"

	sentinel "github.com/alibaba/sentinel-golang/api"
	"github.com/alibaba/sentinel-golang/core/base"
	"github.com/alibaba/sentinel-golang/core/flow"
	"github.com/alibaba/sentinel-golang/core/isolation"
	"github.com/alibaba/sentinel-golang/core/stat"

	"verif/sx"
	"verif/vclock"
	"verif/vk"
)

const nRes = 4

type tally struct {
	pass, block, complete, errs, cbPass, cbBlock, cbDone int64
	// boom: tokens of requests that were passed because a rule check panicked (and then exited): the library may count
	// each of them as one pass + one completion, or not at all
	boom int64
}

var tallies [nRes + 1]tally // last = inbound
var chain *base.SlotChain
var names [nRes]string

type recorder struct{}

func (recorder) Order() uint32 { return 1 << 31 }
func idx(ctx *base.EntryContext) (int, bool) {
	r, _ := ctx.Input.Attachments["res"].(int)
	return r, ctx.Resource.FlowType() == base.Inbound
}
func (recorder) OnEntryPassed(ctx *base.EntryContext) {
	r, in := idx(ctx)
	atomic.AddInt64(&tallies[r].cbPass, 1)
	if in {
		atomic.AddInt64(&tallies[nRes].cbPass, 1)
	}
}
func (recorder) OnEntryBlocked(ctx *base.EntryContext, _ *base.BlockError) {
	r, in := idx(ctx)
	atomic.AddInt64(&tallies[r].cbBlock, 1)
	if in {
		atomic.AddInt64(&tallies[nRes].cbBlock, 1)
	}
}
func (recorder) OnCompleted(ctx *base.EntryContext) {
	r, in := idx(ctx)
	atomic.AddInt64(&tallies[r].cbDone, 1)
	if in {
		atomic.AddInt64(&tallies[nRes].cbDone, 1)
	}
}

type boom struct{}

func (boom) Order() uint32 { return 1 }
func (boom) Check(ctx *base.EntryContext) *base.TokenResult {
	if ctx.Input.Attachments["boom"] == true {
		panic("monitor rule-check panic")
	}
	return nil
}

func one(rng *rand.Rand, res int, inbound bool, batch uint32, withArgs, traceErr, doubleExit, bm bool) (passed bool) {
	opts := []sentinel.EntryOption{sentinel.WithSlotChain(chain), sentinel.WithBatchCount(batch), sentinel.WithAttachment("res", res)}
	if inbound {
		opts = append(opts, sentinel.WithTrafficType(base.Inbound))
	}
	if withArgs {
		opts = append(opts, sentinel.WithArgs(res, "x"))
	}
	if bm {
		opts = append(opts, sentinel.WithAttachment("boom", true))
	}
	e, b := sentinel.Entry(names[res], opts...)
	add := func(f func(t *tally) *int64, n int64) {
		atomic.AddInt64(f(&tallies[res]), n)
		if inbound {
			atomic.AddInt64(f(&tallies[nRes]), n)
		}
	}
	if bm {
		if e != nil {
			add(func(t *tally) *int64 { return &t.boom }, int64(batch))
			e.Exit()
		}
		return e != nil
	}
	if b != nil {
		add(func(t *tally) *int64 { return &t.block }, int64(batch))
		return false
	}
	add(func(t *tally) *int64 { return &t.pass }, int64(batch))
	if traceErr {
		sentinel.TraceError(e, errors.New("x"))
		add(func(t *tally) *int64 { return &t.errs }, int64(batch))
	}
	add(func(t *tally) *int64 { return &t.complete }, int64(batch))
	if doubleExit && batch == 2 {
		// two goroutines exit the same entry at the same time: exactly one completion must be counted
		var w sync.WaitGroup
		w.Add(2)
		for k := 0; k < 2; k++ {
			go func() { defer w.Done(); e.Exit() }()
		}
		w.Wait()
	} else {
		e.Exit()
	}
	if doubleExit {
		e.Exit()
		e.Exit(base.WithError(errors.New("late")))
	}
	return true
}

// oneBare: an inbound request through a chain that holds nothing but the statistic slot (no node-prepare slot, so the
// entry has no resource node): it is still one outcome of the inbound total - pass, completion (with its error) and
// an in-flight unit that is given back
var bareChain *base.SlotChain

func oneBare(rng *rand.Rand, batch uint32, traceErr bool) {
	e, b := sentinel.Entry("c01par-bare", sentinel.WithSlotChain(bareChain), sentinel.WithBatchCount(batch), sentinel.WithTrafficType(base.Inbound))
	if b != nil || e == nil {
		return
	}
	t := &tallies[nRes]
	atomic.AddInt64(&t.pass, int64(batch))
	if traceErr {
		sentinel.TraceError(e, errors.New("x"))
		atomic.AddInt64(&t.errs, int64(batch))
	}
	atomic.AddInt64(&t.complete, int64(batch))
	e.Exit()
}

func main() {
	sx.Quiet()
	run := vk.Start("C01", "par")
	defer run.Finish()
	run.Rule("round = one frozen-clock phase: 16 goroutines x 150 requests (random resource of 4, inbound/outbound, batch 1-3, args, TraceError, repeated/late Exit, occasional panicking rule-check) on pre-touched buckets; at the barrier: every gauge == 0, GetSum(pass/block/complete/error) of every resource node and of the inbound node == client tallies, recorder callbacks == client tallies; then 40 never-seen resources each entered by all 16 goroutines at the same moment: all 16 outcomes on the resource's node; under the race detector. distinct = rounds in which both passes and blocks occurred (by tally vector).")
	run.Assume("virtual clock frozen during a phase and advanced by 15 s between phases", "the first touch of each bucket is done sequentially before the phase (rollover overlap is C09's subject)")
	clk := vclock.New(1900000000000)
	chain = sentinel.BuildDefaultSlotChain()
	chain.AddRuleCheckSlot(boom{})
	chain.AddStatSlot(recorder{})
	bareChain = base.NewSlotChain()
	bareChain.AddStatSlot(stat.DefaultSlot)
	for i := range names {
		names[i] = fmt.Sprintf("c01par-%d", i)
	}
	flow.LoadRules([]*flow.Rule{{Resource: names[1], TokenCalculateStrategy: flow.Direct, ControlBehavior: flow.Reject, Threshold: 400}})
	isolation.LoadRules([]*isolation.Rule{{Resource: names[2], MetricType: isolation.Concurrency, Threshold: 3}})
	rounds := run.N(20, 500)
	const G, K = 16, 150
	{
		// the very first inbound requests of the process, from all goroutines at the same moment (whatever the library
		// sets up on first use is set up under contention): afterwards nothing is in flight, so the in-flight figure of
		// the inbound total - a plain counter, not a window - must be exactly zero
		var gate, ready int32
		var fw sync.WaitGroup
		for g := 0; g < G; g++ {
			fw.Add(1)
			go func(g int) {
				defer fw.Done()
				atomic.AddInt32(&ready, 1)
				for atomic.LoadInt32(&gate) == 0 { // (spinning: a channel wakes its waiters one after the other)
				}
				// through the chain that holds only the statistic slot: the shortest way to the inbound total
				if e, b := sentinel.Entry("c01par-first", sentinel.WithSlotChain(bareChain), sentinel.WithTrafficType(base.Inbound)); b == nil {
					e.Exit()
				}
			}(g)
		}
		for k := 0; k < 2000000 && atomic.LoadInt32(&ready) < G; k++ {
			runtime.Gosched()
		}
		atomic.StoreInt32(&gate, 1)
		fw.Wait()
		if g := stat.InboundNode().CurrentConcurrency(); g != 0 {
			run.Violation("C01/par:first-use:gauge-nonzero-at-quiescence", fmt.Sprintf("after the first %d inbound requests of the process (entered and exited at the same moment) the inbound in-flight figure is %d", G, g), map[string]interface{}{"goroutines": G})
		}
		run.Count("first_use_phases", 1)
		run.Distinct(vk.Hash("first-use", os.Getenv("VERIF_SEED")))
	}
	if os.Getenv("VERIF_MODE") == "first" {
		return // (engine "first": one first use per process, many short processes)
	}
	for r := 0; r < rounds; r++ {
		if run.Skip(r) {
			continue
		}
		run.Begin(r, map[string]int{"round": r, "goroutines": G, "requests_each": K})
		clk.AddMs(15000)
		tallies = [nRes + 1]tally{}
		// pre-touch every node's current bucket
		for i := 0; i < nRes; i++ {
			one(nil, i, true, 1, false, false, false, false)
		}
		var wg sync.WaitGroup
		for g := 0; g < G; g++ {
			wg.Add(1)
			rng := rand.New(rand.NewSource(run.CaseSeed(r)*31 + int64(g)))
			go func() {
				defer wg.Done()
				for k := 0; k < K; k++ {
					if rng.Intn(12) == 0 {
						oneBare(rng, uint32(1+rng.Intn(3)), rng.Intn(4) == 0)
						continue
					}
					one(rng, rng.Intn(nRes), rng.Intn(2) == 0, uint32(1+rng.Intn(3)), rng.Intn(2) == 0, rng.Intn(4) == 0, rng.Intn(4) == 0, rng.Intn(40) == 0)
				}
			}()
		}
		wg.Wait()
		bad := func(clause, msg string) {
			run.Violation("C01/par:"+clause, fmt.Sprintf("round %d: %s", r, msg), map[string]interface{}{"round": r, "tallies": fmt.Sprintf("%+v", tallies)})
		}
		for i := 0; i <= nRes; i++ {
			var node *stat.ResourceNode
			name := "inbound-total"
			if i < nRes {
				node = stat.GetResourceNode(names[i])
				name = names[i]
			} else {
				node = stat.InboundNode()
			}
			t := &tallies[i]
			if g := node.CurrentConcurrency(); g != 0 {
				cl := "gauge-nonzero-at-quiescence"
				if g < 0 {
					cl = "gauge-negative"
				}
				bad(cl, fmt.Sprintf("%s CurrentConcurrency()=%d with nothing in flight", name, g))
			}
			for _, x := range []struct {
				ev   base.MetricEvent
				n    string
				want int64
			}{{base.MetricEventPass, "pass", t.pass}, {base.MetricEventBlock, "block", t.block}, {base.MetricEventComplete, "complete", t.complete}, {base.MetricEventError, "error", t.errs}} {
				got := node.GetSum(x.ev)
				slack := t.boom // (requests passed by a panicking rule check: counted as pass + completion, or not at all)
				if x.ev == base.MetricEventBlock {
					slack = 0
				}
				if got < x.want || got > x.want+slack {
					bad("counter-mismatch:"+x.n, fmt.Sprintf("%s GetSum(%s)=%d, client tally %d (+ at most %d tokens of requests passed by a panicking rule check)", name, x.n, got, x.want, slack))
				}
			}
			if dp, dc := node.GetSum(base.MetricEventPass)-t.pass, node.GetSum(base.MetricEventComplete)-t.complete; dp != dc {
				bad("counter-mismatch:pass-vs-complete", fmt.Sprintf("%s: %d tokens of requests passed by a panicking rule check were counted as passed but %d as completed", name, dp, dc))
			}
			if t.cbDone != t.cbPass {
				bad("callbacks:completions-vs-passes", fmt.Sprintf("%s: %d pass callbacks, %d completion callbacks", name, t.cbPass, t.cbDone))
			}
		}
		// first sight of a resource from all goroutines at once: every outcome must still be counted on the one
		// node the resource ends up with (none on a node that was created concurrently and then dropped)
		for f := 0; f < 40; f++ {
			fresh := fmt.Sprintf("c01par-fresh-%d-%d", r, f)
			gate := make(chan struct{})
			var fw sync.WaitGroup
			for g := 0; g < G; g++ {
				fw.Add(1)
				go func() {
					defer fw.Done()
					<-gate
					if e, b := sentinel.Entry(fresh); b == nil {
						e.Exit()
					}
				}()
			}
			close(gate)
			fw.Wait()
			node := stat.GetResourceNode(fresh)
			if node == nil {
				bad("first-sight:no-node", fresh+" has no statistic node after 16 requests")
				break
			}
			if p, c, g := node.GetSum(base.MetricEventPass), node.GetSum(base.MetricEventComplete), node.CurrentConcurrency(); p != G || c != G || g != 0 {
				bad("first-sight:outcomes-not-counted-on-the-resource", fmt.Sprintf("%d goroutines made the first request of %s at the same moment (no rules: all pass): its node reports pass=%d complete=%d in-flight=%d", G, fresh, p, c, g))
				break
			}
			run.Count("first_sight_resources", 1)
		}
		run.Count("requests", G*K)
		if r < 2 {
			run.Sample(map[string]interface{}{"round": r, "goroutines": G, "requests_each": K, "tallies": fmt.Sprintf("%+v", tallies)})
		}
		tot := tallies[0].block + tallies[1].block + tallies[2].block + tallies[3].block
		if tot > 0 {
			run.Distinct(vk.Hash(fmt.Sprintf("%+v", tallies)))
		}
	}
}
