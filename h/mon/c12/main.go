// C12 monitor: breaker transitions under concurrency. circuit_breaker.go is
// compiled against the shimmed atomics; 2-3 cooperative workers perform
// Entry / complete steps (plus clock ticks) around the open, half-open and close
// transitions. The oracle works on the totally ordered trace of state accesses
// (recorded by the shim), listener callbacks and API call/return events.
package main

import (
	"errors"
	"fmt"
	"math/rand"
	"os"
	"sync"
	"unsafe"

	sentinel "github.com/alibaba/sentinel-golang/api"
	"github.com/alibaba/sentinel-golang/core/base"
	cb "github.com/alibaba/sentinel-golang/core/circuitbreaker"

	"verif/coop"
	"verif/sx"
	"verif/vatomic"
	"verif/vclock"
	"verif/vk"
)

const (
	Closed   = 0
	HalfOpen = 1
	Open     = 2
)

var stName = [...]string{"Closed", "HalfOpen", "Open"}

type step struct {
	K    string `json:"k"` // enter | complete-ok | complete-err | enter-exit-ok | enter-exit-err | tick
	Dt   uint64 `json:"dt,omitempty"`
	Live int    `json:"live,omitempty"` // which pre-existing live entry to complete
}

type scen struct {
	Family  string   `json:"family"`
	Retry   uint32   `json:"retry_ms"`
	Probe   uint64   `json:"probe_num"`
	Workers [][]step `json:"workers"`
	Strat   string   `json:"strategy"`
	Choices []byte   `json:"choices,omitempty"`
	Note    string   `json:"note,omitempty"`
}

// trace events, totally ordered
type ev struct {
	w    int
	kind string // load | cas | lsn | call | ret | exit-beg | exit-end
	a, b int64  // load: value ; cas: new, ok ; lsn: from,to ; ret: admitted
	t    uint64 // virtual ms
	req  int
	addr uintptr // load | cas | store: the word accessed
}

// The state word of the breaker under test is recognised by behaviour, not by name: it is the int32 word whose
// successful compare-and-swap is what its caller reports to the state change listeners next. Accesses to any other
// int32 word (a refactor may add some) are then left out of the trace. Until a transition has been seen every int32
// access counts, as before.
var stateAddr uintptr
var lastCAS = map[int]uintptr{}

func learnState() {
	if stateAddr == 0 {
		stateAddr = lastCAS[coop.Me()]
	}
}

var run *vk.Run
var clk *vclock.Clock
var trace []ev
var caseNo int

type lsn struct{}

func (lsn) OnTransformToClosed(prev cb.State, rule cb.Rule) {
	learnState()
	trace = append(trace, ev{w: coop.Me(), kind: "lsn", a: int64(prev), b: Closed, t: clk.Ms()})
}
func (lsn) OnTransformToOpen(prev cb.State, rule cb.Rule, _ interface{}) {
	learnState()
	trace = append(trace, ev{w: coop.Me(), kind: "lsn", a: int64(prev), b: Open, t: clk.Ms()})
}
func (lsn) OnTransformToHalfOpen(prev cb.State, rule cb.Rule) {
	learnState()
	trace = append(trace, ev{w: coop.Me(), kind: "lsn", a: int64(prev), b: HalfOpen, t: clk.Ms()})
}

// laterSlot runs after the circuit breaker slot; for flagged requests it yields and then blocks,
// so that a request which has just become the half-open probe ends up blocked (roll-back path).
type laterSlot struct{}

func (laterSlot) Order() uint32 { return 6000 }
func (laterSlot) Check(ctx *base.EntryContext) *base.TokenResult {
	if ctx.Input.Attachments["blockLater"] == true {
		coop.Yield("after-breaker-check")
		return base.NewTokenResultBlockedWithMessage(base.BlockTypeUnknown, "blocked by the monitor's later slot")
	}
	return nil
}

func gen(rng *rand.Rand) *scen {
	s := &scen{Retry: vk.PickU32(rng, 10, 100, 1000), Probe: uint64(vk.PickI(rng, 0, 0, 0, 1, 2))}
	s.Family = vk.PickS(rng, "trip", "trip2", "timeout", "probe-ok", "probe-fail", "reopen", "probe-blocked", "probe-blocked")
	r := uint64(s.Retry)
	tickChoices := []uint64{1, r / 2, r - 1, r, r + r/2}
	enter := func() step { return step{K: vk.PickS(rng, "enter", "enter-exit-ok", "enter-exit-err")} }
	switch s.Family {
	case "trip": // one failing completion trips the breaker while others enter
		s.Workers = [][]step{{{K: "complete-err", Live: 0}}, {enter()}}
		if rng.Intn(2) == 0 {
			s.Workers = append(s.Workers, []step{enter(), enter()})
		}
	case "trip2": // two failing completions race for Closed->Open
		s.Workers = [][]step{{{K: "complete-err", Live: 0}}, {{K: "complete-err", Live: 1}}, {enter()}}
		if rng.Intn(2) == 0 {
			// ... while the clock ticks, and a request arrives a retry timeout (or more) later: the loser of the
			// race must not have moved the deadline of the open period
			s.Workers[2] = []step{{K: "tick", Dt: []uint64{1, r / 2, r - 1}[rng.Intn(3)]}, {K: "tick", Dt: []uint64{r / 2, r, r + r/2}[rng.Intn(3)]}, {K: "enter"}}
		}
	case "timeout": // the retry timeout expires while two requests arrive
		s.Workers = [][]step{{enter()}, {enter()}, {{K: "tick", Dt: tickChoices[rng.Intn(5)]}, {K: "tick", Dt: tickChoices[rng.Intn(5)]}}}
	case "probe-blocked": // the request that becomes the probe is blocked by a later slot while a straggler fails
		s.Workers = [][]step{{{K: "enter-blocked"}}, {{K: vk.PickS(rng, "complete-err", "complete-err", "complete-ok"), Live: 0}}, {{K: "tick", Dt: []uint64{1, r / 2}[rng.Intn(2)]}, enter()}}
		if rng.Intn(3) == 0 {
			s.Workers = s.Workers[:2]
			s.Workers = append(s.Workers, []step{enter()})
		}
	case "probe-ok":
		s.Workers = [][]step{{{K: "complete-ok", Live: 0}}, {enter()}, {enter()}}
	case "probe-fail", "reopen":
		s.Workers = [][]step{{{K: "complete-err", Live: 0}}, {enter()}}
		if s.Family == "reopen" {
			s.Workers = append(s.Workers, []step{{K: "tick", Dt: tickChoices[rng.Intn(5)]}, {K: "enter"}})
		} else if rng.Intn(2) == 0 {
			s.Workers = append(s.Workers, []step{enter()})
		}
	}
	return s
}

var listenerOnce sync.Once

func execute(s *scen, ch coop.Chooser) (res *coop.Result, clause, msg string) {
	caseNo++
	name := fmt.Sprintf("c12-%d", caseNo)
	cb.LoadRulesOfResource(name, []*cb.Rule{{Id: name, Resource: name, Strategy: cb.ErrorCount, RetryTimeoutMs: s.Retry, MinRequestAmount: 1,
		StatIntervalMs: 100000, Threshold: 2, ProbeNum: s.Probe}})
	defer cb.ClearRulesOfResource(name)
	clk.AddMs(1000000)
	trace = trace[:0]
	stateAddr = 0
	for k := range lastCAS {
		delete(lastCAS, k)
	}
	vatomic.After = func(op string, addr unsafe.Pointer, v int64, ok bool) { // sequential pre-phase: only learn the state word
		if op == "CompareAndSwapInt32" && ok {
			lastCAS[coop.Me()] = uintptr(addr)
		}
	}
	defer func() { vatomic.After = nil }()
	reqCtr := 0
	enter := func() (*base.SentinelEntry, bool) {
		e, b := sentinel.Entry(name)
		return e, b == nil
	}
	fail := func(e *base.SentinelEntry) {
		sentinel.TraceError(e, errors.New("x"))
		e.Exit()
	}
	// ---- sequential pre-state (outside the scheduler: coop.Me() == -1, shim is a call-through)
	var lives []*base.SentinelEntry
	need := func(n int) bool {
		for i := 0; i < n; i++ {
			e, ok := enter()
			if !ok {
				return false
			}
			lives = append(lives, e)
		}
		return true
	}
	openIt := func() bool { // trip: two failing completions
		e1, ok1 := enter()
		e2, ok2 := enter()
		if !ok1 || !ok2 {
			return false
		}
		fail(e1)
		fail(e2)
		_, ok := enter()
		return !ok
	}
	okSetup := true
	switch s.Family {
	case "trip":
		okSetup = need(2)
		if okSetup {
			fail(lives[1]) // one error recorded; lives[0] will trip it
			lives = lives[:1]
		}
	case "trip2":
		okSetup = need(3)
		if okSetup {
			fail(lives[2])
			lives = lives[:2]
		}
	case "probe-blocked":
		okSetup = need(1) // the straggler, admitted while closed
		if okSetup {
			okSetup = openIt()
		}
		clk.AddMs(uint64(s.Retry) + 1) // the retry timeout has elapsed (one tick more: at the deadline itself either answer is allowed)
	case "timeout":
		okSetup = openIt()
		clk.AddMs(uint64(s.Retry) - uint64(s.Retry)/2) // half a timeout before the deadline
	case "probe-ok", "probe-fail", "reopen":
		okSetup = openIt()
		clk.AddMs(uint64(s.Retry) + 1)
		if okSetup {
			p, ok := enter() // the probe
			okSetup = ok
			lives = append(lives, p)
		}
	}
	if !okSetup {
		return nil, "setup", "could not reach the scenario's pre-state sequentially"
	}
	preLen := len(trace)
	_ = preLen
	// initial state of the breaker when the race starts
	init := Closed
	switch s.Family {
	case "timeout", "probe-blocked":
		init = Open
	case "probe-ok", "probe-fail", "reopen":
		init = HalfOpen
	}
	trace = trace[:0]
	openedAt := clk.Ms() // for "timeout": upper bound of the opening instant (it opened earlier: see below)
	if s.Family == "timeout" {
		openedAt = clk.Ms() - (uint64(s.Retry) - uint64(s.Retry)/2)
	}
	if s.Family == "probe-blocked" {
		openedAt = clk.Ms() - uint64(s.Retry) - 1
	}
	vatomic.After = func(op string, addr unsafe.Pointer, v int64, ok bool) {
		w := coop.Me()
		if w < 0 {
			return
		}
		switch op {
		case "LoadInt32":
			trace = append(trace, ev{w: w, kind: "load", a: v, t: clk.Ms(), addr: uintptr(addr)})
		case "CompareAndSwapInt32":
			b := int64(0)
			if ok {
				b = 1
				lastCAS[w] = uintptr(addr)
			}
			trace = append(trace, ev{w: w, kind: "cas", a: v, b: b, t: clk.Ms(), addr: uintptr(addr)})
		case "StoreInt32":
			trace = append(trace, ev{w: w, kind: "store", a: v, t: clk.Ms(), addr: uintptr(addr)})
		}
	}
	fns := make([]func(), len(s.Workers))
	for w := range s.Workers {
		w := w
		fns[w] = func() {
			for _, st := range s.Workers[w] {
				coop.Yield("before-step")
				switch st.K {
				case "tick":
					clk.AddMs(st.Dt)
				case "complete-ok", "complete-err":
					e := lives[st.Live]
					trace = append(trace, ev{w: w, kind: "exit-beg", t: clk.Ms()})
					if st.K == "complete-err" {
						sentinel.TraceError(e, errors.New("x"))
					}
					e.Exit()
					trace = append(trace, ev{w: w, kind: "exit-end", t: clk.Ms()})
				default:
					reqCtr++
					id := reqCtr
					forced := int64(0)
					if st.K == "enter-blocked" {
						forced = 1
					}
					trace = append(trace, ev{w: w, kind: "call", req: id, a: forced, t: clk.Ms()})
					var e *base.SentinelEntry
					var ok bool
					if st.K == "enter-blocked" {
						var b *base.BlockError
						e, b = sentinel.Entry(name, sentinel.WithAttachment("blockLater", true))
						ok = b == nil
					} else {
						e, ok = enter()
					}
					adm := int64(0)
					if ok {
						adm = 1
					}
					trace = append(trace, ev{w: w, kind: "ret", req: id, a: adm, t: clk.Ms()})
					if e != nil && st.K != "enter" {
						coop.Yield("before-exit")
						trace = append(trace, ev{w: w, kind: "exit-beg", req: id, t: clk.Ms()})
						if st.K == "enter-exit-err" {
							sentinel.TraceError(e, errors.New("x"))
						}
						e.Exit()
						trace = append(trace, ev{w: w, kind: "exit-end", req: id, t: clk.Ms()})
					} else if e != nil {
						defer e.Exit()
					}
				}
			}
		}
	}
	res = coop.Run(ch, coop.Options{Adversarial: 800, FairTail: 5000}, fns...)
	vatomic.After = nil
	if res.Stuck {
		return res, "", "stuck"
	}
	s.Choices = res.Choices
	if len(res.NonTerminated) > 0 {
		return res, "termination", fmt.Sprintf("workers %v did not finish under fair scheduling", res.NonTerminated)
	}
	for w, p := range res.Panics {
		return res, "panic", fmt.Sprintf("worker %d panicked: %s", w, p)
	}
	// ---------------------------------------------------------------- oracle
	if stateAddr != 0 {
		kept := trace[:0]
		for _, e := range trace {
			if e.addr != 0 && e.addr != stateAddr {
				continue
			}
			kept = append(kept, e)
		}
		trace = kept
	}
	retry := uint64(s.Retry)
	state := init
	lastOpenT := openedAt
	haveOpenT := s.Family == "timeout" || s.Family == "probe-blocked"
	type tr struct{ from, to, w int }
	var casTr, lsnTr []tr
	// per request: state loads and transition ownership while inside Entry
	type reqInfo struct {
		w              int
		lastLoad       int64
		loaded         bool
		didHalfOpenCAS bool
		admitted       bool
		retPos         int
		forced         bool // the monitor's later slot blocks this request whatever the breaker says
		callT          uint64
		overlapped     bool // another API call (of any worker) was in progress at some point during this request
		// the opening call had returned before this request began (then openEndAtCall = its end time)
		openEndKnownAtCall bool
		openEndAtCall      uint64
	}
	cur := map[int]*reqInfo{} // worker -> request in progress
	inExit := map[int]bool{}
	// virtual time at which each worker's current API call began: the instant a breaker
	// "opened" is taken as the begin of the call that opened it (earliest possible instant),
	// so that a caller pre-empted inside the transition is never mis-reported
	opBeg := map[int]uint64{}
	halfOpenPos, halfOpenOwner := -1, -1
	if init == HalfOpen {
		halfOpenPos = 0
	}
	// "after which one probe is admitted": the opening instant is at the latest the END of the call that opened the
	// breaker (openEndT). A request that begins at or after openEndT + retry timeout, finds the breaker Open and runs
	// alone (no other API call of any worker overlaps it) has nobody to lose the probe to: it must be admitted.
	openW, openEndKnown, openEndT := -1, false, uint64(0)
	active := map[int]bool{} // workers inside an API call
	for pos, e := range trace {
		switch e.kind {
		case "call", "exit-beg":
			active[e.w] = true
			for _, r := range cur {
				r.overlapped = true
			}
		case "exit-end", "ret":
			delete(active, e.w)
		}
		switch e.kind {
		case "call":
			cur[e.w] = &reqInfo{w: e.w, forced: e.a == 1, callT: e.t, overlapped: len(active) > 1, openEndKnownAtCall: openEndKnown && haveOpenT, openEndAtCall: openEndT}
			opBeg[e.w] = e.t
		case "exit-beg":
			inExit[e.w] = true
			opBeg[e.w] = e.t
		case "exit-end":
			inExit[e.w] = false
			if openW == e.w && !openEndKnown {
				openEndKnown, openEndT = true, e.t
			}
		case "load":
			if r := cur[e.w]; r != nil && !inExit[e.w] {
				r.lastLoad, r.loaded = e.a, true
			}
		case "store", "cas":
			// a transition is a successful compare-and-swap of the state word or (an implementation that serialises
			// its transitions by a lock) a store of a different state; both are judged alike: legal edge, performed
			// once, reported once with the state it replaced
			if e.kind == "cas" && e.b == 0 {
				continue
			}
			if e.kind == "store" && int(e.a) == state {
				continue
			}
			to := int(e.a)
			from := state
			legal := (from == Closed && to == Open) || (from == Open && to == HalfOpen) || (from == HalfOpen && (to == Open || to == Closed))
			if !legal {
				return res, "illegal-transition", fmt.Sprintf("state went %s -> %s (worker %d)", stName[from], stName[to], e.w)
			}
			casTr = append(casTr, tr{from, to, e.w})
			state = to
			switch to {
			case Open:
				// the instant the state word became Open (the library reads the clock for the deadline after this
				// CAS, so deadline >= this instant + retry timeout)
				lastOpenT, haveOpenT = e.t, true
				openW, openEndKnown = e.w, false
				if r := cur[e.w]; r != nil && !inExit[e.w] {
					// HalfOpen->Open performed inside an Entry call: the roll-back of a probe that was blocked
					// by a later check. The probe never ran, the library re-arms an immediate retry: no
					// retry-timeout obligation starts here.
					haveOpenT = false
					if !r.forced || from != HalfOpen {
						return res, "rollback-without-blocked-probe", fmt.Sprintf("worker %d moved the breaker %s->Open inside Entry although its request was not blocked by a later check", e.w, stName[from])
					}
				}
			case HalfOpen:
				openW, openEndKnown = -1, false
				if r := cur[e.w]; r != nil {
					r.didHalfOpenCAS = true
				}
				halfOpenPos, halfOpenOwner = pos, e.w
				if haveOpenT && e.t < lastOpenT+retry {
					return res, "admitted-before-retry-timeout", fmt.Sprintf("Open->HalfOpen (probe admitted) at t=%d, the breaker opened at t=%d, retry timeout %d ms", e.t, lastOpenT, retry)
				}
			}
			_ = halfOpenOwner
		case "lsn":
			lsnTr = append(lsnTr, tr{int(e.a), int(e.b), e.w})
		case "ret":
			r := cur[e.w]
			delete(cur, e.w)
			if r == nil {
				continue
			}
			r.admitted = e.a == 1
			if !r.loaded {
				return res, "decision-without-reading-state", fmt.Sprintf("worker %d returned from Entry without reading the breaker state", e.w)
			}
			if r.forced {
				if r.admitted {
					return res, "later-block-ignored", fmt.Sprintf("worker %d: the later slot blocked the request but it was admitted", e.w)
				}
				continue
			}
			switch {
			case r.admitted && r.lastLoad == Open && !r.didHalfOpenCAS:
				return res, "admitted-while-open", fmt.Sprintf("worker %d read state Open, did not perform Open->HalfOpen, but was admitted", e.w)
			case r.admitted && r.lastLoad == HalfOpen && s.Probe == 0:
				return res, "second-admission-while-half-open", fmt.Sprintf("worker %d read state HalfOpen (no probe number configured) and was admitted while the probe is outstanding", e.w)
			case !r.admitted && r.lastLoad == Closed:
				return res, "rejected-while-closed", fmt.Sprintf("worker %d read state Closed but was rejected", e.w)
			case !r.admitted && r.lastLoad == Open && !r.overlapped && r.openEndKnownAtCall && r.callT > r.openEndAtCall+retry: // (strictly later: at the deadline itself either answer is within the resolution of the millisecond clock)
				return res, "probe-not-admitted-after-retry-timeout", fmt.Sprintf("worker %d began at t=%d, alone, found the breaker Open and was rejected although the call that opened it had returned at t=%d and the retry timeout is %d ms", e.w, r.callT, r.openEndAtCall, retry)
			case !r.admitted && r.didHalfOpenCAS:
				return res, "transitioning-request-rejected", fmt.Sprintf("worker %d performed Open->HalfOpen but was rejected", e.w)
			}
		}
	}
	_ = halfOpenPos
	// listeners: exactly the performed transitions, each once, by the caller that performed it, correct previous state
	if len(casTr) != len(lsnTr) {
		return res, "listener-count", fmt.Sprintf("%d transitions performed, %d reported to the listener (%v vs %v)", len(casTr), len(lsnTr), casTr, lsnTr)
	}
	used := make([]bool, len(lsnTr))
	for _, c := range casTr {
		found := false
		for i, l := range lsnTr {
			if !used[i] && l == c {
				used[i], found = true, true
				break
			}
		}
		if !found {
			return res, "listener-mismatch", fmt.Sprintf("transition %s->%s by worker %d was not reported as such (reported: %v)", stName[c.from], stName[c.to], c.w, lsnTr)
		}
	}
	// program order: a worker's listener callbacks appear in the order of its own transitions
	for w := range s.Workers {
		var a, b []tr
		for _, c := range casTr {
			if c.w == w {
				a = append(a, c)
			}
		}
		for _, l := range lsnTr {
			if l.w == w {
				b = append(b, l)
			}
		}
		for i := range a {
			if a[i] != b[i] {
				return res, "listener-order", fmt.Sprintf("worker %d performed %v but reported %v", w, a, b)
			}
		}
	}
	for _, c := range casTr {
		run.Count(fmt.Sprintf("transitions.%s>%s", stName[c.from], stName[c.to]), 1)
	}
	if len(casTr) > 0 {
		run.Count("schedules_with_transition", 1)
	}
	return res, "", ""
}

func check(i int, s *scen, ch coop.Chooser) {
	res, clause, msg := execute(s, ch)
	if msg == "stuck" {
		run.Abort("scheduler: a worker did not reach a yield point (wall-clock guard); the process is abandoned")
		return
	}
	if clause == "setup" {
		// the pre-state is reached by ordinary sequential use, which C03 judges; here a failed setup only means that
		// there is nothing to race about (too many of them leave the check below its minimum of distinct schedules)
		run.Count("scenarios_skipped_setup_failed", 1)
		return
	}
	if clause != "" {
		dump := ""
		for _, e := range trace {
			switch e.kind {
			case "load":
				dump += fmt.Sprintf(" w%d:load=%s", e.w, stName[e.a])
			case "cas":
				dump += fmt.Sprintf(" w%d:cas->%s(%d)@%d", e.w, stName[e.a], e.b, e.t%100000)
			case "lsn":
				dump += fmt.Sprintf(" w%d:LSN(%s>%s)", e.w, stName[e.a], stName[e.b])
			case "ret":
				dump += fmt.Sprintf(" w%d:ret(adm=%d)@%d", e.w, e.a, e.t%100000)
			default:
				dump += fmt.Sprintf(" w%d:%s@%d", e.w, e.kind, e.t%100000)
			}
		}
		msg += " || trace:" + dump
		s.Note = msg
		run.ViolationAt(i, "C12/"+clause+":"+s.Family, fmt.Sprintf("[%s retry=%dms probe=%d %s] %s", s.Family, s.Retry, s.Probe, s.Strat, msg), s)
		return
	}
	run.Count("steps", int64(res.Steps))
	run.Distinct(vk.Hash(s.Family, s.Retry, s.Probe, s.Workers, string(res.Choices)))
}

func main() {
	sx.Quiet()
	clk = vclock.New(1900000000000)
	if os.Getenv("VERIF_MODE") == "stress" {
		cb.RegisterStateChangeListeners(SL)
		stress()
		return
	}
	cb.RegisterStateChangeListeners(lsn{})
	sentinel.GlobalSlotChain().AddRuleCheckSlot(laterSlot{})
	run = vk.Start("C12", "coop")
	defer run.Finish()
	run.Rule("schedule = (family trip / trip2 / timeout / probe-ok / probe-fail / reopen / probe-blocked (the probe is blocked by a later slot while a straggler completes), retry timeout, probe number, 2-3 workers performing Entry, Entry+Exit(ok/err), completion of a pre-existing entry, clock ticks of 1ms, 1/2, 1-, 1, 1.5 retry timeouts; choice sequence at every atomic access of circuit_breaker.go) under random walk, PCT d<=3 and bounded DFS. Oracle on the recorded total order: the state word changes only along legal edges (by compare-and-swap or by a store), listener multiset == performed transitions (same caller, same previous state, program order), Open->HalfOpen never earlier than open instant + retry timeout, every admission justified by the state the caller read (Closed, own Open->HalfOpen CAS, or HalfOpen with a probe number), no rejection after reading Closed; distinct = distinct (scenario, interleaving).")
	run.Assume("one breaker per resource in this engine (several breakers per resource are covered sequentially by C03)", "Go atomics sequentially consistent; int32 atomics in circuit_breaker.go are the state word")
	{ // observability calibration: the breaker's state word must be visible through the atomic shim
		loads := 0
		vatomic.After = func(op string, addr unsafe.Pointer, v int64, ok bool) {
			if op == "LoadInt32" {
				loads++
			}
		}
		cb.LoadRulesOfResource("c12-calib", []*cb.Rule{{Id: "c12-calib", Resource: "c12-calib", Strategy: cb.ErrorCount, RetryTimeoutMs: 10, MinRequestAmount: 1, StatIntervalMs: 1000, Threshold: 1}})
		if e, b := sentinel.Entry("c12-calib"); b == nil {
			e.Exit()
		}
		cb.ClearRulesOfResource("c12-calib")
		vatomic.After = nil
		if loads == 0 {
			run.Inconclusive("observability: a request through a breaker executed no shimmed load of the state word (was the state machine moved out of core/circuitbreaker/circuit_breaker.go?) - the trace oracle has nothing to judge")
			return
		}
	}
	n := run.N(40000, 3000000)
	for i := 0; i < n; i++ {
		if run.Skip(i) {
			continue
		}
		rng := run.Rand(i)
		s := gen(rng)
		var ch coop.Chooser
		if i%4 == 0 {
			s.Strat = "random"
			ch = &coop.Random{R: rng}
		} else {
			d := 1 + rng.Intn(3)
			s.Strat = fmt.Sprintf("pct-d%d", d)
			ch = coop.NewPCT(rng, len(s.Workers), d, 25)
		}
		run.Eval(i)
		if i < 2 {
			run.Sample(s)
		}
		check(i, s, ch)
	}
	if !run.Replaying() {
		nd := run.N(6, 100)
		for j := 0; j < nd; j++ {
			rng := run.Rand(9_000_000 + j)
			s := gen(rng)
			if len(s.Workers) > 2 && s.Family != "timeout" && s.Family != "reopen" && s.Family != "trip2" {
				s.Workers = s.Workers[:2]
			}
			s.Strat = "dfs-2-preemptions"
			d := &coop.DFS{MaxPreempt: 2}
			cnt := 0
			for d.Next() && cnt < 30000 {
				cnt++
				run.Eval(9_000_000 + j)
				ss := *s
				check(9_000_000+j, &ss, d)
			}
			run.Count("dfs_schedules", int64(cnt))
			if cnt < 30000 {
				run.Count("dfs_scenarios_exhausted", 1)
			}
		}
	}
}

// ------------------------------------------------------------------ real-parallel stress (-race): order-insensitive clauses only

// thread-safe listener for the stress engine: per rule id, counts of each transition kind
type cntLsn struct {
	mu  sync.Mutex
	m   map[string]*[4]int // C>O, O>H, H>O, H>C
	bad []string
}

var SL = &cntLsn{m: map[string]*[4]int{}}

func (l *cntLsn) add(id string, from, to int) {
	l.mu.Lock()
	defer l.mu.Unlock()
	c := l.m[id]
	if c == nil {
		c = &[4]int{}
		l.m[id] = c
	}
	switch {
	case from == Closed && to == Open:
		c[0]++
	case from == Open && to == HalfOpen:
		c[1]++
	case from == HalfOpen && to == Open:
		c[2]++
	case from == HalfOpen && to == Closed:
		c[3]++
	default:
		l.bad = append(l.bad, fmt.Sprintf("%s: %d->%d", id, from, to))
	}
}
func (l *cntLsn) OnTransformToClosed(prev cb.State, rule cb.Rule) { l.add(rule.Id, int(prev), Closed) }
func (l *cntLsn) OnTransformToOpen(prev cb.State, rule cb.Rule, _ interface{}) {
	l.add(rule.Id, int(prev), Open)
}
func (l *cntLsn) OnTransformToHalfOpen(prev cb.State, rule cb.Rule) {
	l.add(rule.Id, int(prev), HalfOpen)
}

func stress() {
	run = vk.Start("C12", "stress")
	defer run.Finish()
	run.Rule("round = 24 goroutines x 300 Entry/Exit(err?) on one resource with a breaker (error count 3, retry 5 ms virtual) while a ticker goroutine advances the virtual clock; afterwards the listener log of that breaker must be a legal path from Closed (each callback's previous state equals the state left by the previous callback is NOT required in log order: only the multiset must be orderable), under the race detector. distinct = rounds.")
	rounds := run.N(10, 300)
	for r := 0; r < rounds; r++ {
		if run.Skip(r) {
			continue
		}
		run.Begin(r, map[string]int{"round": r})
		name := fmt.Sprintf("c12s-%d", r)
		cb.LoadRulesOfResource(name, []*cb.Rule{{Id: name, Resource: name, Strategy: cb.ErrorCount, RetryTimeoutMs: 5, MinRequestAmount: 1, StatIntervalMs: 1000, Threshold: 3, ProbeNum: uint64(r % 2)}})
		var wg sync.WaitGroup
		stop := make(chan struct{})
		go func() {
			for {
				select {
				case <-stop:
					return
				default:
					clk.AddMs(1)
				}
				for i := 0; i < 2000; i++ {
				}
			}
		}()
		for g := 0; g < 24; g++ {
			wg.Add(1)
			rng := rand.New(rand.NewSource(run.CaseSeed(r)*131 + int64(g)))
			go func() {
				defer wg.Done()
				for k := 0; k < 300; k++ {
					e, b := sentinel.Entry(name)
					if b != nil {
						continue
					}
					if rng.Intn(3) == 0 {
						sentinel.TraceError(e, errors.New("x"))
					}
					e.Exit()
				}
			}()
		}
		wg.Wait()
		close(stop)
		cb.ClearRulesOfResource(name)
		SL.mu.Lock()
		c := SL.m[name]
		bad := append([]string(nil), SL.bad...)
		SL.mu.Unlock()
		if len(bad) > 0 {
			run.Violation("C12/stress:illegal-transition-reported", fmt.Sprint(bad), map[string]int{"round": r})
		}
		if c != nil {
			a, b, cc, d := c[0], c[1], c[2], c[3]
			// the multiset must be the edge multiset of a path starting at Closed
			exC, exO, exH := d-a, (a+cc)-b, b-(cc+d) // in - out per node; start node Closed has one extra "out" unless the path returns to it
			ok := (exC == 0 && exO == 0 && exH == 0) || (exC == -1 && ((exO == 1 && exH == 0) || (exO == 0 && exH == 1)))
			if !ok {
				run.Violation("C12/stress:listener-multiset-not-a-path", fmt.Sprintf("round %d: transitions reported C>O=%d O>H=%d H>O=%d H>C=%d cannot be ordered into a path from Closed", r, a, b, cc, d), map[string]int{"round": r})
			}
			run.Count("stress_transitions", int64(a+b+cc+d))
		}
		run.Count("requests", 24*300)
		run.Distinct(vk.Hash(r))
		if r < 2 {
			run.Sample(map[string]interface{}{"round": r, "goroutines": 24, "requests_each": 300, "probe_num": r % 2})
		}
	}
}
