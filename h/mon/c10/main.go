// C10 monitor: throttling flow rules. Engine "seq": exact pacing model on
// nanosecond arrival histories through api.Entry. Engine "coop"
// (VERIF_MODE=coop, tc_throttling.go compiled against verif/vatomic): 2-3
// cooperative callers interleaved at every atomic access of DoCheck, with a
// clock-tick worker; spacing / queueing / justified-rejection oracles on the trace.
package main

import (
	"fmt"
	"github.com/alibaba/sentinel-golang/core/system_metric"
	"math"
	"math/rand"
	"os"
	"sort"
	"sync/atomic"
	"time"
	"unsafe"

	sentinel "github.com/alibaba/sentinel-golang/api"
	"github.com/alibaba/sentinel-golang/core/base"
	"github.com/alibaba/sentinel-golang/core/flow"
	"github.com/alibaba/sentinel-golang/core/stat"

	"verif/coop"
	"verif/sx"
	"verif/vatomic"
	"verif/vclock"
	"verif/vk"
)

type ruleDesc struct {
	Thr      float64 `json:"threshold"`
	Interval uint32  `json:"stat_interval_ms"`
	MaxQ     uint32  `json:"max_queue_ms"`
	// Mem: the threshold comes from the memory-adaptive calculator (memory usage is held below the low water mark, so
	// the effective threshold is constantly the low-memory threshold = Thr)
	Mem bool `json:"memory_adaptive,omitempty"`
}

func (d ruleDesc) rule(id, res string) *flow.Rule {
	if d.Mem {
		return &flow.Rule{ID: id, Resource: res, TokenCalculateStrategy: flow.MemoryAdaptive, ControlBehavior: flow.Throttling, MaxQueueingTimeMs: d.MaxQ, StatIntervalInMs: d.Interval,
			LowMemUsageThreshold: int64(d.Thr), HighMemUsageThreshold: 1, MemLowWaterMarkBytes: 1000, MemHighWaterMarkBytes: 2000}
	}
	return &flow.Rule{ID: id, Resource: res, TokenCalculateStrategy: flow.Direct, ControlBehavior: flow.Throttling, Threshold: d.Thr, MaxQueueingTimeMs: d.MaxQ, StatIntervalInMs: d.Interval}
}

func (r ruleDesc) intervalNs() int64 {
	if r.Interval == 0 {
		return 1000 * 1e6
	}
	return int64(r.Interval) * 1e6
}

func (r ruleDesc) cost(batch uint32) int64 {
	return int64(math.Ceil(float64(batch) / r.Thr * float64(r.intervalNs())))
}

var run *vk.Run
var clk *vclock.Clock
var chain *base.SlotChain
var caseNo int

func genRule(rng *rand.Rand) ruleDesc {
	d := ruleDesc{Thr: vk.PickF(rng, 0.5, 1, 2, 3, 7, 10, 100, 1000), Interval: vk.PickU32(rng, 0, 0, 100, 1000, 10000), MaxQ: vk.PickU32(rng, 0, 0, 1, 10, 100, 500, 2000, 4294, 4295, 5000, 60000, 4294968, 4294967295)}
	d.Mem = d.Thr >= 2 && rng.Intn(5) == 0
	return d
}

func load(res string, r ruleDesc) {
	flow.LoadRulesOfResource(res, []*flow.Rule{r.rule("t", res)})
}

// ------------------------------------------------------------------ sequential engine

type arr struct {
	DtNs  uint64 `json:"dt_ns"`
	Batch uint32 `json:"batch"`
}
type seqCase struct {
	Rule   ruleDesc `json:"rule"`
	Arr    []arr    `json:"arrivals"`
	FailAt int      `json:"fail_at,omitempty"`
	// ReloadAt >= 0: before that arrival the rule list is loaded again (whole-set) with the same rule in a fresh
	// object plus a rule of another resource: the pacing state of the unchanged rule must carry on
	ReloadAt int `json:"reload_at"`
}

func seqEngine() {
	run = vk.Start("C10", "seq")
	defer run.Finish()
	run.Rule("case = one throttling rule (threshold 0.5-1000, interval default/100/1000/10000 ms, max queueing 0-2000 ms) + 30-150 arrivals in virtual ns (same instant, 1 ns, around the spacing cost, long idle), batches 1-5 and above the threshold; each decision and requested sleep vs. the exact pacing model (pass = max(now, last+cost); reject iff last+cost-now > maxQ or batch > threshold); non-trivial = pass, wait and reject all seen; distinct by decision trace.")
	run.Assume("sequential callers; the sleep is recorded and the clock advanced by it (the caller really waits)")
	n := run.N(500, 25000)
	for i := 0; i < n; i++ {
		if run.Skip(i) {
			continue
		}
		rng := run.Rand(i)
		if i%6 == 5 {
			run.Guard("C10/seq:panic", nil, func() { runTwo(i, rng) })
			continue
		}
		c := &seqCase{Rule: genRule(rng), ReloadAt: -1}
		cost1 := uint64(c.Rule.cost(1))
		for k, m := 0, 30+rng.Intn(120); k < m; k++ {
			a := arr{Batch: vk.PickU32(rng, 1, 1, 1, 2, 3, 5)}
			if rng.Intn(20) == 0 {
				a.Batch = uint32(c.Rule.Thr) + 1 + uint32(rng.Intn(2))
			}
			switch rng.Intn(9) {
			case 0, 1, 2:
				a.DtNs = 0
			case 3:
				a.DtNs = 1
			case 4:
				a.DtNs = cost1
			case 5:
				a.DtNs = cost1 - 1
			case 6:
				a.DtNs = cost1 + 1
			case 7:
				a.DtNs = 50 * cost1
			default:
				a.DtNs = uint64(rng.Int63n(int64(2*cost1) + 1))
			}
			c.Arr = append(c.Arr, a)
		}
		if rng.Intn(3) == 0 {
			c.ReloadAt = 1 + rng.Intn(len(c.Arr)-1)
		}
		run.Begin(i, c)
		if i < 2 {
			cc := *c
			cc.Arr = cc.Arr[:8]
			run.Sample(cc)
		}
		run.Guard("C10/seq:panic", c, func() { runSeq(i, c) })
	}
}

// ---- two throttling rules on one resource: the request is paced by each rule in list order (it sleeps for the first
// rule, then meets the second one at the later instant, where it may have to sleep again or is rejected - the first
// rule's slot stays consumed)
type twoCase struct {
	A      ruleDesc `json:"rule_a"`
	B      ruleDesc `json:"rule_b"`
	Dts    []uint64 `json:"arrival_deltas_ns"`
	FailAt int      `json:"fail_at,omitempty"`
}

func runTwo(idx int, rng *rand.Rand) {
	c := &twoCase{A: genRule(rng), B: genRule(rng)}
	c.A.MaxQ, c.B.MaxQ = vk.PickU32(rng, 0, 100, 500, 2000), vk.PickU32(rng, 0, 100, 500, 2000)
	costA, costB := c.A.cost(1), c.B.cost(1)
	for k, m := 0, 30+rng.Intn(60); k < m; k++ {
		c.Dts = append(c.Dts, []uint64{0, 0, 1, uint64(costA), uint64(costB), uint64(costA) / 2, uint64(costB) / 2, uint64(costA + costB), 50 * uint64(costA+costB)}[rng.Intn(9)])
	}
	run.Begin(idx, c)
	caseNo++
	res := fmt.Sprintf("c10-two-%d", caseNo)
	mk := func(id string, d ruleDesc) *flow.Rule {
		return d.rule(id, res)
	}
	flow.LoadRulesOfResource(res, []*flow.Rule{mk("A", c.A), mk("B", c.B)})
	defer flow.ClearRulesOfResource(res)
	clk.AddMs(3600 * 1000)
	var lastA, lastB int64
	step := func(last *int64, t, cost, maxQ int64) (wait int64, ok bool) {
		exp := *last + cost
		switch {
		case exp <= t:
			*last = t
			return 0, true
		case exp-t > maxQ:
			return 0, false
		}
		*last = exp
		return exp - t, true
	}
	sawW, sawR := false, false
	for i, dt := range c.Dts {
		clk.AddNs(dt)
		now := int64(clk.Ns())
		clk.TakeSleeps()
		e, b := sentinel.Entry(res, sentinel.WithSlotChain(chain))
		var sl int64
		for _, s := range clk.TakeSleeps() {
			sl += int64(s)
		}
		want, wantBy := int64(0), ""
		if 1 > c.A.Thr {
			wantBy = "A"
		} else if wA, ok := step(&lastA, now, costA, int64(c.A.MaxQ)*1e6); !ok {
			wantBy = "A"
		} else if 1 > c.B.Thr {
			want, wantBy = wA, "B"
		} else if wB, ok := step(&lastB, now+wA, costB, int64(c.B.MaxQ)*1e6); !ok {
			want, wantBy = wA, "B"
		} else {
			want = wA + wB
		}
		gotBy := ""
		if b != nil {
			if r, ok := b.TriggeredRule().(*flow.Rule); ok && r != nil {
				gotBy = r.ID
			} else {
				gotBy = "?"
			}
			sawR = true
		} else {
			e.Exit()
		}
		if want > 0 {
			sawW = true
		}
		if (gotBy == "") != (wantBy == "") || (gotBy != "" && gotBy != "?" && gotBy != wantBy) || sl != want {
			c.FailAt = i
			run.Violation("C10/seq:two-rules", fmt.Sprintf("arrival %d at t=%dns with rules A %+v and B %+v in that order: rejected by %q after sleeping %d ns; paced by A and then (at the later instant) by B the model rejects by %q after %d ns", i, now, c.A, c.B, gotBy, sl, wantBy, want), c)
			return
		}
	}
	run.Count("two_rule_arrivals", int64(len(c.Dts)))
	if sawW && sawR {
		run.Distinct(vk.Hash("two", c.A, c.B, c.Dts))
	}
}

func runSeq(idx int, c *seqCase) {
	caseNo++
	res := fmt.Sprintf("c10-%d", caseNo)
	load(res, c.Rule)
	defer flow.ClearRulesOfResource(res)
	clk.AddMs(3600 * 1000)
	var last int64 // model of the last pass time (0 = never)
	saw := map[byte]bool{}
	trace := []byte{}
	maxQ := int64(c.Rule.MaxQ) * 1e6
	for i, a := range c.Arr {
		if i == c.ReloadAt {
			flow.LoadRules([]*flow.Rule{c.Rule.rule("t", res),
				{ID: "elsewhere", Resource: res + "-other", TokenCalculateStrategy: flow.Direct, ControlBehavior: flow.Reject, Threshold: 1}})
			run.Count("reloads", 1)
		}
		clk.AddNs(a.DtNs)
		now := int64(clk.Ns())
		clk.TakeSleeps()
		e, b := sentinel.Entry(res, sentinel.WithSlotChain(chain), sentinel.WithBatchCount(a.Batch))
		var sl time.Duration
		for _, s := range clk.TakeSleeps() {
			sl += s
		}
		fail := func(clause, msg string) {
			c.FailAt = i
			run.Violation("C10/seq:"+clause, fmt.Sprintf("arrival %d (batch %d, t=%dns, rule %+v): %s", i, a.Batch, now, c.Rule, msg), c)
		}
		cost := c.Rule.cost(a.Batch)
		wantPass := float64(a.Batch) <= c.Rule.Thr
		var wantSleep int64
		if wantPass {
			exp := last + cost
			switch {
			case exp <= now:
				wantSleep = 0
			case exp-now > maxQ:
				wantPass = false
			default:
				wantSleep = exp - now
			}
		}
		if (b == nil) != wantPass {
			if b == nil {
				fail("admitted-beyond-queueing-limit", fmt.Sprintf("admitted (sleep %v) but last pass %d + cost %d - now = %d ns exceeds max queueing %d ns or batch exceeds threshold", sl, last, cost, last+cost-now, maxQ))
			} else {
				fail("unjustified-rejection", fmt.Sprintf("rejected (%s) although last pass %d + cost %d - now = %d ns <= max queueing %d ns", b.BlockType(), last, cost, last+cost-now, maxQ))
			}
			return
		}
		if b != nil {
			trace = append(trace, 'r')
			saw['r'] = true
			if b.BlockType() != base.BlockTypeFlow {
				fail("block-type", b.BlockType().String())
				return
			}
			if sl != 0 {
				fail("rejected-request-slept", fmt.Sprintf("rejected but slept %v", sl))
				return
			}
			continue
		}
		if int64(sl) != wantSleep {
			cl := "spacing:sleep-too-short"
			if int64(sl) > wantSleep {
				cl = "sleep-longer-than-needed"
			}
			if int64(sl) > maxQ {
				cl = "sleep-exceeds-max-queueing"
			}
			fail(cl, fmt.Sprintf("asked to sleep %d ns, model %d ns (last pass %d, cost %d)", int64(sl), wantSleep, last, cost))
			e.Exit()
			return
		}
		if wantSleep > 0 {
			trace = append(trace, 'w')
			saw['w'] = true
		} else {
			trace = append(trace, 'p')
			saw['p'] = true
		}
		last = now + wantSleep
		e.Exit()
	}
	run.Count("arrivals", int64(len(c.Arr)))
	if saw['p'] && saw['w'] && saw['r'] {
		run.Distinct(vk.Hash(string(trace), c.Rule))
	} else if len(saw) >= 2 {
		run.Count("cases_with_two_outcome_kinds", 1)
		run.Distinct(vk.Hash(string(trace), c.Rule))
	}
}

// ------------------------------------------------------------------ cooperative engine

type call struct {
	Batch uint32 `json:"batch"`
}
type coopCase struct {
	Rule    ruleDesc `json:"rule"`
	LastAgo int64    `json:"last_pass_ago_ns"` // a sequential warm-up request this long before the race
	Workers [][]call `json:"workers"`
	Ticks   []uint64 `json:"ticks_ns"`
	Strat   string   `json:"strategy"`
	Choices []byte   `json:"choices,omitempty"`
	Note    string   `json:"note,omitempty"`
}

type outcome struct {
	w        int
	batch    uint32
	arrive   int64
	ret      int64 // trace position at return
	beg      int   // index into the value trace at call
	end      int
	admitted bool
	sleep    int64
	b0, e0   int // logical instants of call and return (order of these events over all callers)
	// aHi: the latest clock reading the caller made before its first visible access to the pass timestamp (= arrive
	// unless the clock ticked between the monitor's reading and the checker's, which needs a yield point in between:
	// only when more than the checker's own file is instrumented)
	aHi int64
}

func coopEngine() {
	run = vk.Start("C10", "coop")
	defer run.Finish()
	run.Rule("schedule = (throttling rule, optional warm-up pass, 2-3 callers x 1-2 Entry calls, 0-2 clock ticks, choice sequence at every atomic access of ThrottlingChecker.DoCheck) under random walk, PCT d<=3 and bounded DFS; oracle on the set of admitted (arrival, requested sleep): sorted pass times spaced by at least the later request's cost, every sleep <= max queueing, a rejected request justified by some value the shared timestamp took during its call; distinct = distinct (case, interleaving).")
	run.Assume("interleaving granularity = atomic accesses of core/flow/tc_throttling.go", "sleeps are recorded, not slept")
	// sleeps requested per worker
	sleeps := map[int]int64{}
	clk.OnSleep = func(d time.Duration) { sleeps[coop.Me()] += int64(d) }
	lastRead, frozen := map[int]int64{}, map[int]bool{}
	clk.OnRead = func() {
		if w := coop.Me(); w >= 0 && !frozen[w] {
			lastRead[w] = int64(clk.Ns())
		}
	}
	{ // observability calibration: the throttling checker must reach the scheduler through the atomic shim
		c0 := atomic.LoadUint64(&vatomic.Count)
		load("c10-calib", ruleDesc{Thr: 10, Interval: 1000, MaxQ: 100})
		if e, b := sentinel.Entry("c10-calib", sentinel.WithSlotChain(chain)); b == nil {
			e.Exit()
		}
		flow.ClearRulesOfResource("c10-calib")
		if atomic.LoadUint64(&vatomic.Count) == c0 {
			run.Inconclusive("observability: a request through a throttling rule executed no shimmed atomic access (was the checker moved out of core/flow/tc_throttling.go?) - no interleaving can be explored and rejections cannot be justified")
			return
		}
	}
	n := run.N(30000, 1500000)
	do := func(i int, c *coopCase, ch coop.Chooser) {
		caseNo++
		res := fmt.Sprintf("c10c-%d", caseNo)
		load(res, c.Rule)
		defer flow.ClearRulesOfResource(res)
		clk.AddMs(3600 * 1000)
		var all []outcome
		// trace of every value the shared timestamp takes (the only int64 the shimmed file touches)
		vals := []int64{0} // the checker starts with "never passed" = 0
		vatomic.After = func(op string, addr unsafe.Pointer, v int64, ok bool) {
			if os.Getenv("VERIF_DEBUG") != "" {
				fmt.Fprintf(os.Stderr, "w%d %s -> %d ok=%v now=%d\n", coop.Me(), op, v, ok, clk.Ns())
			}
			frozen[coop.Me()] = true
			switch op {
			case "LoadInt64", "AddInt64", "StoreInt64":
				vals = append(vals, v)
			case "CompareAndSwapInt64":
				if ok {
					vals = append(vals, v)
				}
			}
		}
		if c.LastAgo >= 0 {
			// sequential warm-up pass (outside the scheduler)
			e, b := sentinel.Entry(res, sentinel.WithSlotChain(chain))
			if b == nil {
				all = append(all, outcome{w: -1, batch: 1, arrive: int64(clk.Ns()), aHi: int64(clk.Ns()), admitted: true, b0: -2, e0: -1})
				e.Exit()
			}
			clk.AddNs(uint64(c.LastAgo))
		}
		for k := range sleeps {
			delete(sleeps, k)
		}
		evSeq := 0
		nw := len(c.Workers)
		fns := make([]func(), 0, nw+1)
		for w := range c.Workers {
			w := w
			fns = append(fns, func() {
				for _, cl := range c.Workers[w] {
					coop.Yield("before-call")
					o := outcome{w: w, batch: cl.Batch, arrive: int64(clk.Ns()), beg: len(vals), b0: evSeq}
					evSeq++
					sleeps[w] = 0
					lastRead[w], frozen[w] = o.arrive, false
					e, b := sentinel.Entry(res, sentinel.WithSlotChain(chain), sentinel.WithBatchCount(cl.Batch))
					o.end = len(vals)
					o.aHi = lastRead[w]
					if o.aHi < o.arrive {
						o.aHi = o.arrive
					}
					o.e0 = evSeq
					evSeq++
					o.admitted = b == nil
					o.sleep = sleeps[w]
					all = append(all, o)
					if e != nil {
						e.Exit()
					}
				}
			})
		}
		if len(c.Ticks) > 0 {
			fns = append(fns, func() {
				for _, t := range c.Ticks {
					coop.Yield("before-tick")
					clk.AddNs(t)
				}
			})
		}
		r := coop.Run(ch, coop.Options{Adversarial: 600, FairTail: 5000}, fns...)
		vatomic.After = nil
		if r.Stuck {
			run.Abort("scheduler: a worker did not reach a yield point (wall-clock guard); the process is abandoned")
			return
		}
		c.Choices = r.Choices
		bad := func(clause, msg string) {
			c.Note = msg
			run.ViolationAt(i, "C10/coop:"+clause, fmt.Sprintf("[%s rule %+v] %s", c.Strat, c.Rule, msg), c)
		}
		if len(r.NonTerminated) > 0 {
			bad("termination", fmt.Sprintf("callers %v did not finish under fair scheduling", r.NonTerminated))
			return
		}
		for w, p := range r.Panics {
			bad("panic", fmt.Sprintf("caller %d panicked: %s", w, p))
			return
		}
		maxQ := int64(c.Rule.MaxQ) * 1e6
		var adm []outcome
		for _, o := range all {
			cost := c.Rule.cost(o.batch)
			if o.admitted {
				if o.sleep > maxQ {
					bad("sleep-exceeds-max-queueing", fmt.Sprintf("caller %d asked to wait %d ns, max queueing %d ns", o.w, o.sleep, maxQ))
					return
				}
				if float64(o.batch) > c.Rule.Thr {
					bad("batch-above-threshold-admitted", fmt.Sprintf("caller %d batch %d admitted, threshold %v", o.w, o.batch, c.Rule.Thr))
					return
				}
				adm = append(adm, o)
				continue
			}
			if o.sleep != 0 {
				bad("rejected-request-slept", fmt.Sprintf("caller %d rejected but asked to sleep %d ns", o.w, o.sleep))
				return
			}
			if float64(o.batch) > c.Rule.Thr {
				continue
			}
			// justified iff some value of the shared timestamp during the call satisfies v + cost - now > maxQ
			just := false
			lo := o.beg
			if lo > 0 {
				lo-- // the value in force when the call started
			}
			for _, v := range vals[lo:o.end] {
				if v+cost-o.arrive > maxQ {
					just = true
				}
			}
			if !just && len(vals) <= 1 {
				// the implementation's pass timestamp is not visible (it is no longer accessed through atomics): judge
				// by outcomes. The latest pass time the caller can have met is the latest one granted by a call that
				// began before this one returned; callers rejected concurrently may have held a reservation meanwhile.
				base, transient := vals[0], int64(0)
				for _, o2 := range all {
					if o2.w == o.w && o2.b0 == o.b0 {
						continue
					}
					if o2.b0 < o.e0 && o2.admitted && o2.aHi+o2.sleep > base {
						base = o2.aHi + o2.sleep
					}
					if o2.b0 < o.e0 && o2.e0 > o.b0 && !o2.admitted {
						transient += c.Rule.cost(o2.batch)
					}
				}
				just = base+transient+cost-o.arrive > maxQ
				run.Count("rejections_judged_by_outcomes", 1)
			}
			if !just {
				bad("unjustified-rejection", fmt.Sprintf("caller %d (batch %d, arrival %d) rejected although no value of the pass timestamp during its call (%v) exceeds the queueing limit %d with cost %d", o.w, o.batch, o.arrive, vals[lo:o.end], maxQ, cost))
				return
			}
		}
		sort.Slice(adm, func(a, b int) bool { return adm[a].arrive+adm[a].sleep < adm[b].arrive+adm[b].sleep })
		for k := 1; k < len(adm); k++ {
			p0, p1 := adm[k-1].arrive+adm[k-1].sleep, adm[k].arrive+adm[k].sleep
			cost := c.Rule.cost(adm[k].batch)
			// (with an uncertain arrival reading the pair is judged in the order and at the distance most favourable to it)
			if adm[k].aHi+adm[k].sleep-p0 < cost && adm[k-1].aHi+adm[k-1].sleep-p1 < c.Rule.cost(adm[k-1].batch) {
				// equal pass times: either order must satisfy the spacing of the later one
				dbg := ""
				base0 := all[0].arrive
				for _, o := range all {
					dbg += fmt.Sprintf(" {w%d b%d arr+%d adm=%v sleep=%d}", o.w, o.batch, o.arrive-base0, o.admitted, o.sleep)
				}
				dbg += " timestamp-values(rel):"
				for _, v := range vals {
					dbg += fmt.Sprintf(" %d", v-base0)
				}
				bad("spacing", fmt.Sprintf("pass times %d (caller %d) and %d (caller %d, batch %d) are %d ns apart, the later request needs %d ns;%s", p0, adm[k-1].w, p1, adm[k].w, adm[k].batch, p1-p0, cost, dbg))
				return
			}
		}
		run.Count("steps", int64(r.Steps))
		waits := 0
		for _, o := range adm {
			if o.sleep > 0 {
				waits++
			}
		}
		if waits > 0 {
			run.Count("schedules_with_queued_callers", 1)
		}
		if len(adm) < len(all) {
			run.Count("schedules_with_rejections", 1)
		}
		run.Distinct(vk.Hash(c.Rule, c.LastAgo, c.Workers, c.Ticks, string(r.Choices)))
	}
	gen := func(rng *rand.Rand) *coopCase {
		c := &coopCase{Rule: genRule(rng)}
		cost1 := c.Rule.cost(1)
		c.LastAgo = []int64{-1, 0, 1, cost1 - 1, cost1, cost1 / 2, 10 * cost1}[rng.Intn(7)]
		for w, nw := 0, 2+rng.Intn(2); w < nw; w++ {
			var cs []call
			for k, m := 0, 1+rng.Intn(2); k < m; k++ {
				cs = append(cs, call{Batch: vk.PickU32(rng, 1, 1, 1, 2, 3)})
			}
			c.Workers = append(c.Workers, cs)
		}
		for k, m := 0, rng.Intn(3); k < m; k++ {
			c.Ticks = append(c.Ticks, []uint64{1, uint64(cost1) / 2, uint64(cost1), uint64(cost1) + 1, 3 * uint64(cost1)}[rng.Intn(5)])
		}
		return c
	}
	for i := 0; i < n; i++ {
		if run.Skip(i) {
			continue
		}
		rng := run.Rand(i)
		c := gen(rng)
		nw := len(c.Workers)
		if len(c.Ticks) > 0 {
			nw++
		}
		var ch coop.Chooser
		if i%3 == 0 {
			c.Strat = "random"
			ch = &coop.Random{R: rng}
		} else {
			d := 1 + rng.Intn(3)
			c.Strat = fmt.Sprintf("pct-d%d", d)
			ch = coop.NewPCT(rng, nw, d, 30)
		}
		run.Eval(i)
		if i < 2 {
			run.Sample(c)
		}
		do(i, c, ch)
	}
	if !run.Replaying() {
		nd := run.N(5, 80)
		for j := 0; j < nd; j++ {
			rng := run.Rand(7_000_000 + j)
			c := gen(rng)
			c.Workers = c.Workers[:2]
			c.Ticks = nil
			c.Strat = "dfs-3-preemptions"
			d := &coop.DFS{MaxPreempt: 3}
			cnt := 0
			for d.Next() && cnt < 30000 {
				cnt++
				run.Eval(7_000_000 + j)
				cc := *c
				do(7_000_000+j, &cc, d)
			}
			run.Count("dfs_schedules", int64(cnt))
			if cnt < 30000 {
				run.Count("dfs_cases_exhausted", 1)
			}
		}
	}
}

func main() {
	sx.Quiet()
	clk = vclock.New(1900000000000)
	system_metric.SetSystemMemoryUsage(1)
	// minimal chain: node prepare + flow rule check + statistic slot
	chain = base.NewSlotChain()
	chain.AddStatPrepareSlot(stat.DefaultResourceNodePrepareSlot)
	chain.AddRuleCheckSlot(flow.DefaultSlot)
	chain.AddStatSlot(stat.DefaultSlot)
	if os.Getenv("VERIF_MODE") == "coop" {
		coopEngine()
		return
	}
	clk.AdvanceOnSleep = true
	seqEngine()
}
