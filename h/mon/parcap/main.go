// parcap: parallel conservation monitor shared by C04 (isolation) and C07 (system
// concurrency), selected by VERIF_PROP. Real goroutines under the race detector
// open and exit entries in random order with a frozen virtual clock; online, a
// monitor-side count of entries known to be live bounds the overshoot (N + k - 1)
// and outbound traffic must never meet a system block; at every barrier (nothing in
// flight) the gauge must be exactly zero and a sequential capacity probe must admit
// exactly the threshold: a lost or duplicated in-flight update shows up here.
package main

import (
	"fmt"
	"math/rand"
	"os"
	"runtime"
	"sync"
	"sync/atomic"

	sentinel "github.com/alibaba/sentinel-golang/api"
	"github.com/alibaba/sentinel-golang/core/base"
	"github.com/alibaba/sentinel-golang/core/flow"
	"github.com/alibaba/sentinel-golang/core/isolation"
	"github.com/alibaba/sentinel-golang/core/stat"
	"github.com/alibaba/sentinel-golang/core/system"

	"verif/sx"
	"verif/vclock"
	"verif/vk"
)

var run *vk.Run
var clk *vclock.Clock
var prop string
var caseNo int

const G = 16

// C02: a flow rule is loaded onto a never-seen resource while the first requests of that resource arrive: whichever
// of them creates the resource's statistic node, the rule must end up reading the node the requests are counted on.
// Afterwards (everything quiet, clock frozen) ten sequential requests may add at most the threshold to the window.
func roundC02(r int, rng *rand.Rand) {
	caseNo++
	const T = 3
	for f := 0; f < 60; f++ {
		fresh := fmt.Sprintf("parcap-C02-%d-%d", caseNo, f)
		gate := make(chan struct{})
		var fw sync.WaitGroup
		for g := 0; g < G; g++ {
			fw.Add(1)
			g := g
			go func() {
				defer fw.Done()
				<-gate
				if g == 0 {
					flow.LoadRulesOfResource(fresh, []*flow.Rule{{ID: "f", Resource: fresh, TokenCalculateStrategy: flow.Direct, ControlBehavior: flow.Reject, Threshold: T}})
					return
				}
				if e, b := sentinel.Entry(fresh); b == nil {
					e.Exit()
				}
			}()
		}
		close(gate)
		fw.Wait()
		seq := 0
		for k := 0; k < 10; k++ {
			if e, b := sentinel.Entry(fresh); b == nil {
				seq++
				e.Exit()
			}
		}
		flow.ClearRulesOfResource(fresh)
		if seq > T {
			run.Violation("C02/par:rule-loaded-at-first-sight-does-not-count", fmt.Sprintf("round %d: a reject rule (threshold %d) was loaded onto a never-seen resource while its first %d requests arrived; afterwards, with a frozen clock, %d of 10 sequential requests were admitted", r, T, G-1, seq), map[string]interface{}{"round": r, "trial": f})
			return
		}
		run.Count("first_sight_rule_loads", 1)
	}
	run.Distinct(vk.Hash("c02", r))
	if r < 2 {
		run.Sample(map[string]interface{}{"round": r, "trials": 60, "requesters": G - 1, "threshold": T})
	}
}

func round(r int, rng *rand.Rand) {
	if prop == "C02" {
		roundC02(r, rng)
		return
	}
	caseNo++
	res := fmt.Sprintf("parcap-%s-%d", prop, caseNo)
	thr := 1 + rng.Intn(5)
	steps := 150 + rng.Intn(250)
	switch prop {
	case "C04":
		isolation.LoadRulesOfResource(res, []*isolation.Rule{{ID: "p", Resource: res, MetricType: isolation.Concurrency, Threshold: uint32(thr)}})
		defer isolation.ClearRulesOfResource(res)
	case "C07":
		// (the very first round of a process starts without the rule: the first inbound requests of the process then
		// reach the statistic slot - and with it the process-global inbound node - all at the same moment; the rule
		// arrives while they run, and the overshoot bound is only judged from the second round on)
		if r > 0 {
			system.LoadRules([]*system.Rule{{ID: "p", MetricType: system.Concurrency, TriggerCount: float64(thr), Strategy: system.NoAdaptive}})
		}
		defer system.ClearRules()
	}
	var live, peak int64 // entries the monitor knows to be live (a lower bound of the true in-flight figure)
	var outBlocked, wrongType atomic.Value
	var admitted, blocked int64
	var wg sync.WaitGroup
	start := make(chan struct{}) // all goroutines leave together (the first requests of a process / a resource overlap)
	var stopWobble int32
	wobbleDone := make(chan struct{})
	go func() {
		// the wall clock is stepped back and forth by a few ms while requests are in flight (NTP corrections): the
		// in-flight figure does not depend on time
		defer close(wobbleDone)
		<-start
		base := clk.Ms()
		for k := 0; atomic.LoadInt32(&stopWobble) == 0; k++ {
			clk.SetMs(base + uint64((k*7)%5))
			runtime.Gosched()
		}
		clk.SetMs(base + 5)
	}()
	for g := 0; g < G; g++ {
		wg.Add(1)
		grng := rand.New(rand.NewSource(rng.Int63()))
		go func() {
			defer wg.Done()
			<-start
			type held struct {
				e     *base.SentinelEntry
				units int64
			}
			var hs []held
			for k := 0; k < steps; k++ {
				if len(hs) > 0 && grng.Intn(2) == 0 {
					j := grng.Intn(len(hs))
					h := hs[j]
					hs = append(hs[:j], hs[j+1:]...)
					atomic.AddInt64(&live, -h.units)
					h.e.Exit()
					continue
				}
				var e *base.SentinelEntry
				var b *base.BlockError
				units := int64(1)
				switch prop {
				case "C04":
					e, b = sentinel.Entry(res)
				case "C07":
					if grng.Intn(4) == 0 {
						units = 0
						e, b = sentinel.Entry(res+"-out", sentinel.WithTrafficType(base.Outbound))
						if b != nil {
							outBlocked.Store(fmt.Sprintf("outbound request blocked: %v", b))
						}
					} else {
						e, b = sentinel.Entry(res, sentinel.WithTrafficType(base.Inbound))
						if b != nil && b.BlockType() != base.BlockTypeSystemFlow {
							wrongType.Store(fmt.Sprintf("inbound request blocked with %v", b.BlockType()))
						}
					}
				}
				if b != nil {
					atomic.AddInt64(&blocked, 1)
					continue
				}
				atomic.AddInt64(&admitted, 1)
				n := atomic.AddInt64(&live, units)
				for {
					p := atomic.LoadInt64(&peak)
					if n <= p || atomic.CompareAndSwapInt64(&peak, p, n) {
						break
					}
				}
				hs = append(hs, held{e, units})
				if grng.Intn(8) == 0 {
					// a late second Exit / TraceError on a finished entry must change nothing
					j := grng.Intn(len(hs))
					h := hs[j]
					hs = append(hs[:j], hs[j+1:]...)
					atomic.AddInt64(&live, -h.units)
					h.e.Exit()
					h.e.Exit()
				}
			}
			for _, h := range hs {
				atomic.AddInt64(&live, -h.units)
				h.e.Exit()
			}
		}()
	}
	close(start)
	if prop == "C07" && r == 0 {
		system.LoadRules([]*system.Rule{{ID: "p", MetricType: system.Concurrency, TriggerCount: float64(thr), Strategy: system.NoAdaptive}})
	}
	wg.Wait()
	atomic.StoreInt32(&stopWobble, 1)
	<-wobbleDone
	d := map[string]interface{}{"round": r, "threshold": thr, "goroutines": G, "steps_each": steps}
	if s, _ := outBlocked.Load().(string); s != "" {
		run.Violation(prop+"/par:outbound-blocked", fmt.Sprintf("round %d: %s", r, s), d)
	}
	if s, _ := wrongType.Load().(string); s != "" {
		run.Violation(prop+"/par:block-type", fmt.Sprintf("round %d: %s", r, s), d)
	}
	if peak > int64(thr+G-1) && !(prop == "C07" && r == 0) {
		run.Violation(prop+"/par:overshoot-beyond-k-1", fmt.Sprintf("round %d: %d entries were live at once, threshold %d with %d concurrent callers (bound %d)", r, peak, thr, G, thr+G-1), d)
	}
	run.Max("peak_live_minus_threshold", peak-int64(thr))
	// barrier: nothing in flight
	var gauge int32
	if prop == "C07" {
		gauge = stat.InboundNode().CurrentConcurrency()
	} else if n := stat.GetResourceNode(res); n != nil {
		gauge = n.CurrentConcurrency()
	}
	if gauge != 0 {
		run.Violation(prop+"/par:gauge-nonzero-at-quiescence", fmt.Sprintf("round %d: in-flight figure is %d with nothing in flight", r, gauge), d)
	}
	var hs []*base.SentinelEntry
	n := 0
	for ; n < thr+3; n++ {
		var e *base.SentinelEntry
		var b *base.BlockError
		if prop == "C07" {
			e, b = sentinel.Entry(res, sentinel.WithTrafficType(base.Inbound))
		} else {
			e, b = sentinel.Entry(res)
		}
		if b != nil {
			break
		}
		hs = append(hs, e)
	}
	for _, e := range hs {
		e.Exit()
	}
	if n != thr {
		run.Violation(prop+"/par:capacity-after-quiescence", fmt.Sprintf("round %d: with nothing in flight the resource admitted %d entries, threshold %d", r, n, thr), d)
	}
	// C04: first sight of a resource from all goroutines at once (fewer callers than the threshold, so nothing may be
	// rejected and nothing may overshoot), then the resource is filled sequentially: it must hold exactly the threshold
	if prop == "C04" {
		for f := 0; f < 30; f++ {
			fresh := fmt.Sprintf("%s-fresh-%d", res, f)
			N := G + 2
			isolation.LoadRulesOfResource(fresh, []*isolation.Rule{{ID: "f", Resource: fresh, MetricType: isolation.Concurrency, Threshold: uint32(N)}})
			gate := make(chan struct{})
			var fw sync.WaitGroup
			var fmu sync.Mutex
			var held []*base.SentinelEntry
			for g := 0; g < G; g++ {
				fw.Add(1)
				go func() {
					defer fw.Done()
					<-gate
					if e, b := sentinel.Entry(fresh); b == nil {
						fmu.Lock()
						held = append(held, e)
						fmu.Unlock()
					}
				}()
			}
			close(gate)
			fw.Wait()
			first := len(held)
			for len(held) < N+3 {
				e, b := sentinel.Entry(fresh)
				if b != nil {
					break
				}
				held = append(held, e)
			}
			total := len(held)
			for _, e := range held {
				e.Exit()
			}
			isolation.ClearRulesOfResource(fresh)
			if first != G || total != N {
				run.Violation(prop+"/par:first-sight-capacity", fmt.Sprintf("round %d: %d goroutines made the first requests of a resource with threshold %d at the same moment: %d admitted; filled up sequentially afterwards it held %d entries", r, G, N, first, total), d)
				break
			}
			run.Count("first_sight_resources", 1)
		}
	}
	run.Count("admitted", admitted)
	run.Count("blocked", blocked)
	run.Count("capacity_probes", 1)
	if admitted > 0 && blocked > 0 {
		run.Distinct(vk.Hash(r, thr, steps))
	}
	if r < 2 {
		run.Sample(d)
	}
}

func main() {
	sx.Quiet()
	clk = vclock.New(1900000000000)
	prop = os.Getenv("VERIF_PROP")
	if prop != "C04" && prop != "C07" && prop != "C02" {
		fmt.Fprintln(os.Stderr, "VERIF_PROP must be C02, C04 or C07")
		os.Exit(3)
	}
	run = vk.Start(prop, "par")
	defer run.Finish()
	run.Rule("round = 16 goroutines x 150-400 steps opening and exiting (random order, occasional double Exit) entries on one resource guarded by a concurrency threshold 1-5 (C04: isolation rule; C07: system concurrency rule, a quarter of the traffic outbound) under the race detector with a frozen virtual clock; online: monitor-side live count <= threshold + 15, outbound never blocked; at the barrier the in-flight figure must be 0 and a sequential probe must admit exactly the threshold. non-trivial = admissions and rejections both seen; distinct = rounds.")
	run.Assume("the online live count is a lower bound of the true in-flight figure (incremented after Entry returns, decremented before Exit is called)")
	n := run.N(30, 600)
	for i := 0; i < n; i++ {
		if run.Skip(i) {
			continue
		}
		run.Eval(i)
		round(i, run.Rand(i))
	}
}
