package main

import (
	"os"
	"fmt"

	sentinel "github.com/alibaba/sentinel-golang/api"
	"github.com/alibaba/sentinel-golang/core/flow"

	"verif/sx"
	"verif/vclock"
)

var mode = 0

func main() {
	if len(os.Args) > 1 {
		mode = 1
	}
	sx.Quiet()
	clk := vclock.New(1900000000000)
	res := "dbg"
	flow.LoadRulesOfResource(res, []*flow.Rule{{ID: res, Resource: res, TokenCalculateStrategy: flow.WarmUp, ControlBehavior: flow.ControlBehavior(mode), Threshold: 3, WarmUpPeriodSec: 30, WarmUpColdFactor: 5}})
	clk.AddMs(100000)
	clk.SetMs(clk.Ms() - clk.Ms()%1000)
	try := func() bool {
		e, b := sentinel.Entry(res)
		if b != nil {
			return false
		}
		e.Exit()
		return true
	}
	perSec := map[uint64]int{}
	for end := clk.Ms() + 102000; clk.Ms() < end; clk.AddMs(20) {
		for k := 0; k < 6; k++ {
			if try() {
				perSec[clk.Ms()/1000]++
			}
		}
	}
	s0 := clk.Ms() / 1000
	fmt.Println("last seconds of saturation:", perSec[s0-3], perSec[s0-2], perSec[s0-1])
	clk.AddMs(63000)
	clk.SetMs(clk.Ms() - clk.Ms()%1000)
	t0 := clk.Ms()
	for end := clk.Ms() + 3000; clk.Ms() < end; clk.AddMs(20) {
		for k := 0; k < 6; k++ {
			if try() {
				fmt.Println("admitted at +", clk.Ms()-t0, "sleeps", clk.TakeSleeps())
			}
		}
	}
}
