// C02 sequential monitor: reject-mode QPS flow rules vs. the aligned-window
// reference, through api.Entry on the default global slot chain.
package main

import (
	"fmt"
	"math/rand"

	sentinel "github.com/alibaba/sentinel-golang/api"
	"github.com/alibaba/sentinel-golang/core/base"
	"github.com/alibaba/sentinel-golang/core/config"
	"github.com/alibaba/sentinel-golang/core/flow"

	"verif/ref"
	"verif/sx"
	"verif/vclock"
	"verif/vk"
)

type geo struct{ GSC, GIV, MSC, MIV uint32 }

var geos = []geo{
	{20, 10000, 2, 1000}, // default
	{10, 1000, 2, 200},
	{4, 4000, 1, 1000},
	{20, 10000, 1, 500},
}

type ruleDesc struct {
	ID        string  `json:"id"`
	Threshold float64 `json:"threshold"`
	Interval  uint32  `json:"interval"`
	Assoc     bool    `json:"assoc"`
	// Leftover: a rule on the current resource that still names a reference resource (a valid configuration: the
	// reference only matters under the associated relation strategy)
	Leftover bool `json:"leftover_ref_resource,omitempty"`
}

type arrival struct {
	Dt    uint64 `json:"dt"`
	OnRef bool   `json:"on_ref,omitempty"`
	Batch uint32 `json:"batch"`
}

type caseDesc struct {
	Geo    geo        `json:"geo"`
	Rules  []ruleDesc `json:"rules"`
	RefHas *ruleDesc  `json:"ref_rule,omitempty"`
	// Lead: a throttling rule with a huge rate stands in front of the reject rules: requests arriving at the same
	// instant are asked to wait a few nanoseconds by it and must still meet the reject rules behind it
	Lead   bool      `json:"leading_throttling_rule,omitempty"`
	T0     uint64    `json:"t0"`
	Arr    []arrival `json:"arrivals"`
	FailAt int       `json:"fail_at,omitempty"`
}

var run *vk.Run
var clk *vclock.Clock

// ruleModel: which window a rule reads.
type ruleModel struct {
	d        ruleDesc
	interval uint64
	win      *ref.Win // node window (reuse) or own standalone window
	alone    bool
	src      string // resource whose admitted tokens feed the window
	kind     string
	// altWin: for an associated rule with a standalone window, the window as it would be if it
	// were fed by the rule's OWN resource (known defect class, used only to label a violation)
	altWin *ref.Win
	own    string
}

// effective geometry, as documented in flow.generateStatFor
func planRule(g geo, d ruleDesc) (reuse bool, sc, iv uint32, kind string) {
	L := g.GIV / g.GSC
	iv = d.Interval
	if iv == 0 || iv == g.MIV {
		return true, g.MSC, g.MIV, "default-view"
	}
	switch {
	case iv > g.GIV, iv < L, iv%L != 0:
		sc = 1
	default:
		sc = iv / L
	}
	tiles := g.GIV%iv == 0 && (iv/sc)%L == 0
	if tiles {
		return true, sc, iv, "reused-view"
	}
	return false, sc, iv, "standalone"
}

func genCase(rng *rand.Rand) *caseDesc {
	c := &caseDesc{Geo: geos[0]}
	if rng.Intn(3) == 0 {
		c.Geo = geos[rng.Intn(len(geos))]
	}
	g := c.Geo
	L := g.GIV / g.GSC
	ivs := []uint32{0, 0, g.MIV, L, 2 * L, g.GIV, g.GIV / 2, 3 * L, 300, 250, 750, 3000, 2 * g.GIV, 20000, L / 2, L + 1, 7 * L}
	nr := 1 + rng.Intn(3)
	for i := 0; i < nr; i++ {
		d := ruleDesc{ID: fmt.Sprintf("r%d", i)}
		d.Threshold = vk.PickF(rng, 0, 0.5, 1, 1, 2, 2.5, 3, 4, 5, 7.9, 10, 20)
		d.Interval = ivs[rng.Intn(len(ivs))]
		if d.Interval == 0 && rng.Intn(2) == 0 {
			d.Interval = 0
		}
		d.Assoc = rng.Intn(4) == 0
		if d.Assoc {
			if reuse, _, _, _ := planRule(g, d); !reuse && rng.Intn(4) != 0 {
				d.Interval = vk.PickU32(rng, 0, g.MIV, L, 2*L)
			}
		} else if rng.Intn(4) == 0 {
			d.Leftover = true
		}
		c.Rules = append(c.Rules, d)
	}
	if len(c.Rules) > 1 && rng.Intn(3) == 0 {
		// siblings with equal statistic parameters (interval, relation): each still meters on a window of its own
		c.Rules[1].Interval, c.Rules[1].Assoc, c.Rules[1].Leftover = c.Rules[0].Interval, c.Rules[0].Assoc, c.Rules[0].Leftover
	}
	if rng.Intn(3) == 0 {
		c.RefHas = &ruleDesc{ID: "q0", Threshold: vk.PickF(rng, 1, 2, 5), Interval: ivs[rng.Intn(len(ivs))]}
	}
	maxIv := uint64(g.GIV)
	for _, d := range c.Rules {
		if uint64(d.Interval) > maxIv {
			maxIv = uint64(d.Interval)
		}
	}
	c.T0 = 1700000000000 + uint64(rng.Intn(100000))
	if rng.Intn(6) == 0 {
		c.T0 = 1 + uint64(rng.Intn(3000))
	}
	n := 20 + rng.Intn(70)
	t := c.T0
	for i := 0; i < n; i++ {
		var a arrival
		l64 := uint64(L)
		switch rng.Intn(12) {
		case 0, 1, 2, 3:
			a.Dt = 0
		case 4:
			a.Dt = 1 + uint64(rng.Intn(int(L)))
		case 5:
			a.Dt = l64 - t%l64
		case 6:
			a.Dt = l64
		case 7:
			a.Dt = uint64(g.MIV)
		case 8:
			a.Dt = uint64(g.GIV) - t%uint64(g.GIV)
		case 9:
			a.Dt = maxIv + uint64(rng.Intn(1000))
		case 10:
			a.Dt = 3*maxIv + 1
		default:
			a.Dt = uint64(rng.Intn(int(g.MIV) + 1))
		}
		t += a.Dt
		a.OnRef = rng.Intn(4) == 0
		a.Batch = vk.PickU32(rng, 1, 1, 1, 1, 2, 3, 0, 5, 11)
		c.Arr = append(c.Arr, a)
	}
	c.Lead = rng.Intn(4) == 0
	return c
}

var caseNo int

func runCase(idx int, c *caseDesc) {
	caseNo++
	g := c.Geo
	e := config.NewDefaultConfig()
	e.Sentinel.Stat.GlobalStatisticSampleCountTotal = g.GSC
	e.Sentinel.Stat.GlobalStatisticIntervalMsTotal = g.GIV
	e.Sentinel.Stat.MetricStatisticSampleCount = g.MSC
	e.Sentinel.Stat.MetricStatisticIntervalMs = g.MIV
	config.ResetGlobalConfig(e)
	defer config.ResetGlobalConfig(config.NewDefaultConfig())
	clk.SetMs(c.T0)
	R := fmt.Sprintf("c02-%d-R", caseNo)
	Q := fmt.Sprintf("c02-%d-Q", caseNo)
	nodeWin := map[string]*ref.Win{R: ref.NewWin(g.GSC, g.GIV), Q: ref.NewWin(g.GSC, g.GIV)}
	var rules []*flow.Rule
	models := map[string][]*ruleModel{}
	add := func(res string, d ruleDesc) {
		r := &flow.Rule{ID: d.ID, Resource: res, TokenCalculateStrategy: flow.Direct, ControlBehavior: flow.Reject,
			Threshold: d.Threshold, StatIntervalInMs: d.Interval}
		src := res
		if d.Leftover {
			r.RefResource = Q
		}
		if d.Assoc {
			r.RelationStrategy = flow.AssociatedResource
			r.RefResource = Q
			src = Q
		}
		rules = append(rules, r)
		reuse, sc, iv, kind := planRule(g, d)
		m := &ruleModel{d: d, interval: uint64(iv), src: src, kind: kind}
		if reuse {
			m.win = nodeWin[src]
		} else {
			m.win = ref.NewWin(sc, iv)
			m.alone = true
			if d.Assoc {
				m.altWin = ref.NewWin(sc, iv)
				m.own = res
			}
		}
		if d.Assoc {
			m.kind += "+associated"
		}
		models[res] = append(models[res], m)
	}
	for _, d := range c.Rules {
		add(R, d)
	}
	if c.RefHas != nil {
		add(Q, *c.RefHas)
	}
	if c.Lead {
		rules = append([]*flow.Rule{{ID: "lead", Resource: R, TokenCalculateStrategy: flow.Direct, ControlBehavior: flow.Throttling, Threshold: 1e9, MaxQueueingTimeMs: 1000}}, rules...)
	}
	if len(rules) > 1 && caseNo%3 == 0 {
		// the list is installed in two steps (first rule alone, then the whole list in fresh objects): the rules added
		// by the second load must get statistics of their own
		first := *rules[0]
		if _, err := flow.LoadRules([]*flow.Rule{&first}); err != nil {
			run.Violation("C02/load-error", fmt.Sprintf("LoadRules failed for valid rules: %v", err), c)
			return
		}
		run.Count("lists_installed_in_two_steps", 1)
	} else if len(rules) > 1 && caseNo%3 == 1 {
		// the list replaces an EDITED version of one of its rules (same statistic parameters, other threshold): the old
		// controller may lend its (still empty) statistic to at most one rule of the new list - siblings with equal
		// statistic parameters must not end up metering on one shared window
		k := 0
		if c.Lead {
			k = 1
		}
		old := *rules[k]
		old.Threshold += 0.25
		if _, err := flow.LoadRules([]*flow.Rule{&old}); err != nil {
			run.Violation("C02/load-error", fmt.Sprintf("LoadRules failed for valid rules: %v", err), c)
			return
		}
		run.Count("lists_replacing_an_edited_rule", 1)
	}
	if _, err := flow.LoadRules(rules); err != nil {
		run.Violation("C02/load-error", fmt.Sprintf("LoadRules failed for valid rules: %v", err), c)
		return
	}
	defer flow.ClearRules()
	sawPass, sawBlock := false, false
	trace := make([]byte, 0, len(c.Arr))
	for i, a := range c.Arr {
		clk.AddMs(a.Dt)
		now := clk.Ms()
		res := R
		if a.OnRef {
			res = Q
		}
		// expected
		var blocker *ruleModel
		var cur int64
		for _, m := range models[res] {
			cur = m.win.Sum(ref.EvPass, now, m.interval)
			if float64(cur)+float64(a.Batch) > m.d.Threshold {
				blocker = m
				break
			}
		}
		// decision under the known-defect reading (own-resource feeding), for labelling only
		var altBlocker *ruleModel
		var altCur int64
		for _, m := range models[res] {
			w := m.win
			if m.altWin != nil {
				w = m.altWin
			}
			altCur = w.Sum(ref.EvPass, now, m.interval)
			if float64(altCur)+float64(a.Batch) > m.d.Threshold {
				altBlocker = m
				break
			}
		}
		en, be := sentinel.Entry(res, sentinel.WithBatchCount(a.Batch))
		if (en == nil) == (be == nil) {
			c.FailAt = i
			run.Violation("C02/outcome:both-or-neither", "Entry returned both or neither of (entry, block error)", c)
			return
		}
		fail := func(clause, msg string) {
			c.FailAt = i
			k := "no-rule"
			if blocker != nil {
				k = blocker.kind
			} else if len(models[res]) > 0 {
				k = models[res][0].kind
			}
			// Does the "standalone window of an associated rule is fed by the rule's own resource"
			// reading explain exactly what the library did? Then it is that (single) defect.
			tainted := false
			for _, m := range models[res] {
				if m.altWin != nil {
					tainted = true
				}
			}
			if tainted {
				explained := false
				if be == nil {
					explained = altBlocker == nil
				} else if altBlocker != nil && be.BlockType() == base.BlockTypeFlow && ruleID(be) == altBlocker.d.ID {
					v, ok := be.TriggeredValue().(float64)
					explained = ok && v == float64(altCur)
				}
				if explained {
					run.Violation("C02/associated-rule:standalone-window-fed-by-own-resource", fmt.Sprintf("arrival %d on %s at t=%d batch=%d: %s [%s] — the decision equals the one obtained when the associated rule's standalone window counts the rule's own resource instead of the referenced one", i, res, now, a.Batch, msg, clause), c)
					return
				}
			}
			run.Violation("C02/"+clause+":"+k, fmt.Sprintf("arrival %d on %s at t=%d batch=%d: %s", i, res, now, a.Batch, msg), c)
		}
		if be != nil {
			trace = append(trace, 'b')
			sawBlock = true
			if blocker == nil {
				fail("admit-iff:spurious-rejection", fmt.Sprintf("rejected (%s, rule %v, value %v) although every rule has room", be.BlockType(), ruleID(be), be.TriggeredValue()))
				return
			}
			if be.BlockType() != base.BlockTypeFlow {
				fail("block-type", fmt.Sprintf("blocked with %s, expected flow", be.BlockType()))
				return
			}
			// the rule blamed must be one whose window has no room for the batch (which of several such rules is
			// reported, and the value reported with it, are not part of the property: counted only)
			violated := false
			for _, m := range models[res] {
				if m.d.ID == ruleID(be) && float64(m.win.Sum(ref.EvPass, now, m.interval))+float64(a.Batch) > m.d.Threshold {
					violated = true
				}
			}
			if !violated {
				fail("triggered-rule", fmt.Sprintf("rejected in the name of rule %q, which has room for the batch (first rule without room: %q)", ruleID(be), blocker.d.ID))
				return
			}
			if id := ruleID(be); id != blocker.d.ID {
				run.Count("blamed_rule_is_not_the_first_violated_one", 1)
			} else if v, ok := be.TriggeredValue().(float64); !ok || v != float64(cur) {
				run.Count("triggered_value_differs_from_window_sum", 1)
			}
		} else {
			trace = append(trace, 'p')
			sawPass = true
			if blocker != nil {
				fail("admit-iff:over-admission", fmt.Sprintf("admitted although rule %q (threshold %v, interval %d) already has %d tokens in its window", blocker.d.ID, blocker.d.Threshold, blocker.interval, cur))
				return
			}
			nodeWin[res].Add(now, ref.EvPass, int64(a.Batch))
			for _, ms := range models {
				for _, m := range ms {
					if m.alone && m.src == res {
						m.win.Add(now, ref.EvPass, int64(a.Batch))
					}
					if m.altWin != nil && m.own == res {
						m.altWin.Add(now, ref.EvPass, int64(a.Batch))
					}
				}
			}
			en.Exit()
		}
	}
	run.Count("arrivals", int64(len(c.Arr)))
	if sawPass && sawBlock {
		run.Distinct(vk.Hash(string(trace), c.Rules, c.Geo))
	}
	for _, ms := range models {
		for _, m := range ms {
			run.Count("rules."+m.kind, 1)
		}
	}
}

func ruleID(be *base.BlockError) string {
	if r, ok := be.TriggeredRule().(*flow.Rule); ok && r != nil {
		return r.ID
	}
	return fmt.Sprintf("<%T>", be.TriggeredRule())
}

func main() {
	sx.Quiet()
	run = vk.Start("C02", "seq")
	defer run.Finish()
	run.Rule("case = (global statistic geometry, 1-3 reject rules on R with thresholds incl. 0 and fractional, intervals default/reused/standalone, some associated to Q, optional rule on Q, 20-90 arrivals on R/Q with batches 0..11 and hostile time deltas); every decision and block type is compared with the aligned-window model, and the rule blamed for a rejection must be one without room; non-trivial = the decision trace contains a pass and a block; distinct by (trace, rules, geometry).")
	run.Assume("sequential callers (GOMAXPROCS=1); the k-concurrent clause is decided by the coop engine", "window geometry of a rule follows the documented reuse rule of flow.generateStatFor")
	clk = vclock.New(1700000000000)
	n := run.N(400, 12000)
	for i := 0; i < n; i++ {
		if run.Skip(i) {
			continue
		}
		c := genCase(run.Rand(i))
		run.Begin(i, c)
		if i < 2 {
			cc := *c
			if len(cc.Arr) > 10 {
				cc.Arr = cc.Arr[:10]
			}
			run.Sample(cc)
		}
		run.Guard("C02/panic", c, func() { runCase(i, c) })
	}
}
