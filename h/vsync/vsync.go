// Package vsync mirrors the part of package sync that sentinel-golang uses. Files of /repo are compiled against
// it through `go build -overlay` (an Instr entry with the suffix "+sync", see cmd/vrun/instrument.go): acquiring
// a Mutex / RWMutex first calls the scheduler hook (a yield point between critical sections) and then takes the
// real lock by TryLock + yield, so that a worker parked while holding the lock cannot dead-lock the cooperative
// scheduler. Outside a cooperative run (no hook installed) the calls go straight to package sync.
package vsync

import (
	"sync"
	"sync/atomic"
	"unsafe"

	"verif/vatomic"
)

type (
	WaitGroup = sync.WaitGroup
	Once      = sync.Once
	Pool      = sync.Pool
	Map       = sync.Map
	Cond      = sync.Cond
	Locker    = sync.Locker
)

func NewCond(l Locker) *Cond { return sync.NewCond(l) }

type Mutex struct{ mu sync.Mutex }

func acquire(op string, p unsafe.Pointer, try func() bool, block func()) {
	h := vatomic.Hook
	atomic.AddUint64(&vatomic.Count, 1) // a shimmed access like any other (observability calibration of the monitors)
	if h == nil {
		block()
		return
	}
	h(op, p)
	for !try() {
		h = vatomic.Hook
		if h == nil {
			block()
			return
		}
		h(op+"-wait", p) // always a yield point (the holder must be allowed to run)
	}
}

func (m *Mutex) Lock()         { acquire("Mutex.Lock", unsafe.Pointer(m), m.mu.TryLock, m.mu.Lock) }
func (m *Mutex) TryLock() bool { return m.mu.TryLock() }
func (m *Mutex) Unlock()       { m.mu.Unlock() }

type RWMutex struct{ mu sync.RWMutex }

func (m *RWMutex) Lock()           { acquire("RWMutex.Lock", unsafe.Pointer(m), m.mu.TryLock, m.mu.Lock) }
func (m *RWMutex) RLock()          { acquire("RWMutex.RLock", unsafe.Pointer(m), m.mu.TryRLock, m.mu.RLock) }
func (m *RWMutex) TryLock() bool   { return m.mu.TryLock() }
func (m *RWMutex) TryRLock() bool  { return m.mu.TryRLock() }
func (m *RWMutex) Unlock()         { m.mu.Unlock() }
func (m *RWMutex) RUnlock()        { m.mu.RUnlock() }
func (m *RWMutex) RLocker() Locker { return m.mu.RLocker() }

// the remaining exported functions of package sync, so that an instrumented file keeps compiling whatever it uses
func OnceFunc(f func()) func()                                 { return sync.OnceFunc(f) }
func OnceValue[T any](f func() T) func() T                     { return sync.OnceValue(f) }
func OnceValues[T1, T2 any](f func() (T1, T2)) func() (T1, T2) { return sync.OnceValues(f) }
