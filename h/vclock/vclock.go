// Package vclock is the virtual clock installed through util.SetClock. Time is a
// 64-bit nanosecond counter that only the monitor moves. Sleep(d) is recorded
// (the "wait requested from the clock") and, in auto-advance mode, moves time.
package vclock

import (
	"sync"
	"sync/atomic"
	"time"

	"github.com/alibaba/sentinel-golang/util"
)

type Clock struct {
	ns    int64 // current time in ns
	reads int64 // number of CurrentTime* / Now reads (livelock detector)

	mu     sync.Mutex
	sleeps []time.Duration
	// AdvanceOnSleep: Sleep(d) moves the clock by d (sequential monitors).
	AdvanceOnSleep bool
	// OnRead / OnSleep are optional hooks (scheduler yield points). They run
	// without the clock's lock held.
	OnRead  func()
	OnSleep func(d time.Duration)
	// ReadLimit > 0: panic with LivelockError when more reads than that happen
	// between two ResetReads calls.
	ReadLimit int64
}

type LivelockError struct{ Reads int64 }

func (e LivelockError) Error() string { return "vclock: read limit exceeded (livelock?)" }

var _ util.Clock = (*Clock)(nil)

// New creates a clock at startMs milliseconds and installs it.
func New(startMs uint64) *Clock {
	c := &Clock{ns: int64(startMs) * 1e6}
	util.SetClock(c)
	return c
}

func (c *Clock) Install() { util.SetClock(c) }

func (c *Clock) read() int64 {
	n := atomic.AddInt64(&c.reads, 1)
	if c.ReadLimit > 0 && n > c.ReadLimit {
		panic(LivelockError{n})
	}
	if c.OnRead != nil {
		c.OnRead()
	}
	return atomic.LoadInt64(&c.ns)
}

func (c *Clock) Now() time.Time            { return time.Unix(0, c.read()) }
func (c *Clock) CurrentTimeMillis() uint64 { return uint64(c.read()) / 1e6 }
func (c *Clock) CurrentTimeNano() uint64   { return uint64(c.read()) }

func (c *Clock) Sleep(d time.Duration) {
	c.mu.Lock()
	c.sleeps = append(c.sleeps, d)
	adv := c.AdvanceOnSleep
	c.mu.Unlock()
	if c.OnSleep != nil {
		c.OnSleep(d)
	}
	if adv && d > 0 {
		atomic.AddInt64(&c.ns, int64(d))
	}
}

// Monitor-side API (does not count as a read) ------------------------------

func (c *Clock) Ms() uint64      { return uint64(atomic.LoadInt64(&c.ns)) / 1e6 }
func (c *Clock) Ns() uint64      { return uint64(atomic.LoadInt64(&c.ns)) }
func (c *Clock) SetMs(ms uint64) { atomic.StoreInt64(&c.ns, int64(ms)*1e6) }
func (c *Clock) SetNs(ns uint64) { atomic.StoreInt64(&c.ns, int64(ns)) }
func (c *Clock) AddMs(ms uint64) { atomic.AddInt64(&c.ns, int64(ms)*1e6) }
func (c *Clock) AddNs(ns uint64) { atomic.AddInt64(&c.ns, int64(ns)) }
func (c *Clock) Reads() int64    { return atomic.LoadInt64(&c.reads) }
func (c *Clock) ResetReads()     { atomic.StoreInt64(&c.reads, 0) }

// TakeSleeps returns and clears the sleeps requested since the last call.
func (c *Clock) TakeSleeps() []time.Duration {
	c.mu.Lock()
	s := c.sleeps
	c.sleeps = nil
	c.mu.Unlock()
	return s
}
