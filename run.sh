#!/bin/bash
# ./run.sh <ID> quick|thorough      decide one property on /repo's current working tree
# ./run.sh replay <replay.json>     re-execute one recorded case
set -u
cd "$(dirname "$0")"
export VERIF_DIR="$PWD"
export GOFLAGS=-mod=mod GOPROXY=off GOSUMDB=off GOTOOLCHAIN=local
mkdir -p h/bin
( cd h && go build -o bin/vrun ./cmd/vrun ) || { echo "INCONCLUSIVE driver build failed"; exit 2; }
exec h/bin/vrun "$@"
