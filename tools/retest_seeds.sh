#!/bin/bash
# retest_seeds.sh [name...]   re-run, for every kept seeded change (default: all), the quick check of its property against a
# scratch worktree carrying the patch, plus the checks named in seeded/<name>/cross (one id per line) when its own
# check stays silent; writes seeded/<name>/result.json and prints one line per seed. Never touches /repo's tree.
cd /verif
names=("$@"); [ ${#names[@]} -eq 0 ] && names=($(ls seeded | grep -E '^C[0-9]+-[a-z]$'))
one() {
  n=$1; id=${n%%-*}
  out=$(tools/seedtest.sh $id /verif/seeded/$n/patch.diff quick 2>&1); rc=$(echo "$out" | grep -oE 'SEEDTEST .* exit=[0-9]+' | grep -oE '[0-9]+$')
  sig=$(echo "$out" | grep -m1 '^VIOLATION' | sed -E 's/.* sig=([^ ]+) ::.*/\1/')
  cross=""
  if [ "$rc" != "1" ] && [ -f seeded/$n/cross ]; then
    for x in $(cat seeded/$n/cross); do
      o2=$(tools/seedtest.sh $x /verif/seeded/$n/patch.diff quick 2>&1); r2=$(echo "$o2" | grep -oE 'SEEDTEST .* exit=[0-9]+' | grep -oE '[0-9]+$')
      s2=$(echo "$o2" | grep -m1 '^VIOLATION' | sed -E 's/.* sig=([^ ]+) ::.*/\1/')
      cross="$cross $x:$r2:$s2"
    done
  fi
  python3 - "$n" "$rc" "$sig" "$cross" <<'PY'
import json,sys
n,rc,sig,cross=sys.argv[1:5]
json.dump({"seed":n,"own_check_exit":int(rc or -1),"own_first_signature":sig,"cross":[dict(zip(("check","exit","signature"),c.split(":",2))) for c in cross.split()]},open(f"/verif/seeded/{n}/result.json","w"),indent=1)
PY
  echo "$n own=$rc ${sig} cross:${cross}"
}
export -f one
printf "%s\n" "${names[@]}" | xargs -P 3 -I{} bash -c 'one {}'
