#!/bin/bash
# benign_test.sh <dir-with-patch.diff+meta.json> <ID> [more IDs...]: apply a property-preserving change to a scratch
# worktree of /repo and run the quick checks of the given properties against it; prints one line per check.
# A VIOLATION here is either a false alarm of the check or a change that does break the property: triage by hand.
d=$1; shift
name=$(basename $d)
wt=/tmp/bw-$name-$$
git -C /repo worktree add --detach $wt HEAD >/dev/null 2>&1 || { echo "$name worktree failed"; exit 2; }
if ! git -C $wt apply $d/patch.diff 2>/tmp/bw-$name-$$.err; then echo "$name PATCH-DOES-NOT-APPLY $(head -1 /tmp/bw-$name-$$.err)"; git -C /repo worktree remove --force $wt; rm -f /tmp/bw-$name-$$.err; exit 2; fi
rm -f /tmp/bw-$name-$$.err
for id in "$@"; do
  out=/var/tmp/benign-$name-$id.out
  VERIF_REPO=$wt VERIF_OUT_TAG=$name timeout 3600 /verif/run.sh $id quick > $out 2>&1; rc=$?
  echo "$name $id rc=$rc $(grep -m1 -E '^VIOLATION|INCONCLUSIVE' $out | cut -c1-260)"
done
git -C /repo worktree remove --force $wt
