#!/usr/bin/env python3
"""Regenerates /verif/MANIFEST.json from the table below (single source of truth)."""
import json, subprocess, os
V = '/verif'
props = [json.loads(l) for l in open(f'{V}/properties.jsonl')]
ids = [p['id'] for p in props]

# id -> (level category, level text, level note, technique, design ref)
checks = {
 'C01': ('exploration',
   'Two runtime monitors. (1) Sequential shadow ledger (GOMAXPROCS=1, LIFO pools): after every op of generated Entry/TraceError/Exit/late-call histories over five differently guarded resources the node and inbound statistics (5 window sums + gauge), the recording StatSlot callbacks (exactly-once, own err/rt/resource) and the state of every live entry (owner, Err, Args, BatchCount, Resource) are compared with the ledger, including requests whose prepare / rule-check slot or hot-param check panics. (2) 16 real goroutines under the Go race detector with a frozen virtual clock; at each barrier gauges must be zero and window sums equal the client tallies.',
   'Trusts the ledger, ref.Win and the virtual clock; histories sampled; panics inside user stat slots / exit handlers are outside the domain; concurrent exactness relies on pre-touched buckets (rollover overlap is C09).',
   'runtime shadow-ledger monitor + race-detector stress with barrier conservation checks', 'DESIGN.md §3 C01'),
 'C02': ('exploration',
   'Two runtime monitors. (1) Lock-step reference model: every api.Entry decision, block type, triggered rule and triggered value on generated arrival histories (virtual clock; default / reused / standalone windows under four global geometries; 1-3 rules; associated rules; batches 0..11; boundary and idle-gap deltas) is compared with an aligned-window model. (2) Cooperative scheduler: 2-4 real goroutines interleaved at the two admission-path yield points (monitor slots before the rule checks and between rule-check and statistic phase); each decision must be consistent with [recorded, recorded+in-path] at the instant of its check and the window excess is bounded by (k_inside-1)*max batch; random walk, PCT and bounded-DFS schedules.',
   'Trusts ref.Win, the virtual clock and the coop scheduler; window geometry of a rule is taken from the documented reuse rule; interleavings are at slot granularity, sampled (DFS exhaustive only for <=3 pre-emptions of 2 workers).',
   'runtime reference-model monitor + cooperative-scheduler interleaving monitor on the real slot chain', 'DESIGN.md §3 C02'),
 'C03': ('exploration',
   'Lock-step differential against a three-state reference breaker (ref.CB, one per rule): every api.Entry decision, block type, triggered rule and the cumulative StateChangeListener log are compared after every event of generated time-stamped histories (overlapping requests, stragglers, errors, slow calls, hostile clock deltas) for all three strategies, thresholds incl. 0/1, min-request 0-8, retry 1-5000 ms, 0/1/dividing/non-dividing bucket counts, probe number 0-3 and 1-3 breakers per resource (half-open roll-back when a later breaker rejects).',
   'Trusts the 150-line reference breaker and the virtual clock; sequential (concurrency is C12); ratios within (1e-9,1e-7) of the threshold are counted as dont-care.',
   'runtime reference-model monitor (lock-step differential vs three-state machine) under a virtual clock', 'DESIGN.md §3 C03'),
 'C04': ('exploration',
   'Two runtime monitors. (1) 64-bit semaphore reference model stepped in lock-step with api.Entry/Exit histories over several resources (1-3 rules, random exit order, batches over the full uint32 range): decision, triggered rule/value, gauge after every exit/rejection. (2) Cooperative scheduler as for C02: decision consistent with [in-flight, in-flight+in-path], peak in-flight <= N + k_inside - 1.',
   'Trusts the semaphore model and the coop scheduler; interleavings at slot granularity, sampled (bounded DFS for 2 workers).',
   'runtime reference-model monitor + cooperative-scheduler interleaving monitor on the real slot chain', 'DESIGN.md §3 C04'),
 'C09': ('exploration',
   'Cooperative-scheduler monitor: the real core/stat/base code is compiled with every sync/atomic access turned into a yield point (build-time import swap, no source change) and 2-3 real goroutines performing 1-2 add / read / values / concurrency ops each, plus a clock-tick worker constrained so that no recorder is stalled longer than one bucket, are interleaved at atomic-access granularity around a bucket rollover (families warm / cold / boundary; 1, 2, 3, 20 buckets) under random-walk, PCT (d<=3) and bounded-DFS (<=2 pre-emptions) schedules. Amounts are distinct powers of 16, so every read and every final bucket decodes into exactly which adds it contains: nothing counted twice or invented, nothing credited to another bucket (arrays with >1 bucket), the expired cycle\'s marker never visible, exact totals when no recorder overlapped a rollover, every worker terminates within 10^4 fair steps. Second engine: 32 goroutines under the race detector (checkptr on the unsafe indexing) in frozen-clock phases.',
   'Interleavings are complete at atomic-access granularity only for the sampled / bounded schedule classes (<=3 workers x 2 ops); Go atomics assumed sequentially consistent; min-rt and max-concurrency (documented inaccurate) are exercised but not compared.',
   'cooperative-scheduler interleaving monitor over build-time-shimmed atomics (random/PCT/bounded DFS) + race-detector stress', 'DESIGN.md §3 C09'),
 'C10': ('exploration',
   'Two runtime monitors through api.Entry on a minimal chain. (1) Exact sequential pacing model on generated nanosecond arrival histories (pass = max(now, last+ceil(batch/threshold*interval)); reject iff that exceeds the queueing limit or batch > threshold), comparing every decision and requested sleep. (2) Cooperative scheduler with core/flow/tc_throttling.go compiled against the shimmed atomics: 2-3 callers x 1-2 calls and a clock-tick worker interleaved at every atomic access of DoCheck (random walk, PCT d<=3, bounded DFS); on the set of admitted (arrival, requested sleep) pairs the sorted pass times must be spaced by the later request\'s cost, every sleep within the limit, and each rejection justified by a value the shared timestamp took during that call (recorded by the shim).',
   'Sleeps are recorded through the virtual clock, not slept; interleavings sampled / bounded (<=3 callers x 2 calls); Go atomics assumed sequentially consistent.',
   'runtime reference-model monitor + cooperative-scheduler interleaving monitor over build-time-shimmed atomics', 'DESIGN.md §3 C10'),
 'C11': ('exploration',
   'Behavioural envelope monitor: warm-up rules (threshold 0.5-1000, period 1-30 s, cold factor default/2-10) are driven through api.Entry with saturating, saturating-idle-saturating, one-request-per-tick and bursty demand simulated at 10-20 ms resolution in virtual time for 3*period+10 s and longer; W1 admitted tokens per aligned 1 s window <= threshold (a NaN / infinite effective threshold shows up here), W2 first second after a cold start <= ceil(T/cold)+1, W3 full rate after 3*period+10 s of saturating demand, W4 (T>=1) a steady single-token demand is admitted at least once per 3*period+10 s. Memory-adaptive rules: the effective threshold, measured as the number of admissions in an empty frozen window, under a monotone sweep of injected memory readings equals the low / high memory threshold at or beyond the water marks, stays inside the envelope and never rises with usage.',
   'Thresholds are observed only through admissions (integer resolution); tolerances W2 (+1) / W3 (floor-1) / W4 (3*period+10 s) are the bounded restatements documented in DESIGN.md; configurations and demand shapes are sampled.',
   'runtime envelope monitor over admission counts per virtual second (behavioural threshold measurement)', 'DESIGN.md §3 C11'),
 'C12': ('exploration',
   'Cooperative-scheduler monitor: circuit_breaker.go (and the leap array it spins on) compiled against the shimmed atomics; 2-3 real goroutines performing Entry, Entry+Exit(ok/err) and completions of pre-existing entries, plus clock ticks of 1 ms / 0.5 / 1- / 1 / 1.5 retry timeouts, are interleaved at every atomic access around the trip, double-trip, timeout-expiry, probe-success, probe-failure and re-open transitions (random walk, PCT d<=3, bounded DFS). The oracle runs on the recorded total order of state loads / CAS (from the shim), listener callbacks and API call/return events: state changes only by legal CAS; the listener multiset equals the performed transitions with the same caller, previous state and program order; no Open->HalfOpen earlier than the opening call\'s begin + retry timeout; every admission justified by the state its caller read (Closed, its own Open->HalfOpen CAS, or HalfOpen with a probe number) and no rejection after reading Closed. Second engine: 24 goroutines with a ticking virtual clock under the race detector, listener multiset must be orderable into a path from Closed.',
   'One breaker per resource in this engine; interleavings sampled / bounded (<=3 workers); the opening instant is taken as the begin of the opening call (earliest possible), so a caller pre-empted inside the transition is not mis-reported; Go atomics assumed sequentially consistent.',
   'cooperative-scheduler interleaving monitor over build-time-shimmed atomics with a trace (legal-path / exclusivity / timing) oracle + race-detector stress', 'DESIGN.md §3 C12'),
 'C13': ('exploration',
   'Model-based monitor over all six rule modules: generated sequences of LoadRules / LoadRulesOfResource (LoadRuleOfResource for outlier) / ClearRules / ClearRulesOfResource / identical reload with freshly allocated equal objects, lists mixing binding valid rules (unique id + probe signature), inert valid rules, every field-wise invalidity class of the module and nil elements. After every step the getters (ids, order within a resource) and probe traffic (admissions until the first block and the triggered rule: frozen-window requests for flow, nested entries for isolation / hotspot / system, error completions for breakers, failing callee completions until FilterNodes reports the node for outlier) on the touched and on another resource are compared with the model = valid rules of the latest load per resource.',
   'Validity is the monitor\'s own transcription of each module\'s documented check; probes observe the binding (minimum-K) rule and the getters the whole list; generated rules are semantically unique (the managers re-use the controller and the old rule object of a rule equal in every field but ID, which is not treated as a violation); unsupported-enum rules accepted by the module\'s own check are not generated.',
   'runtime model-based monitor: getters + signature probe traffic vs latest-valid-load model', 'DESIGN.md §3 C13'),
 'C17': ('fault_enumeration',
   'History + fault-enumeration monitor on the real writer / searcher in a scratch directory under the virtual clock: generated per-second batch sequences (repeated, skipped and stale seconds, resource names with spaces / slashes / non-ASCII, file size limits 200 B-4 KB forcing many rolls, 1-5 retained files, start times shortly before midnight); after every write the file-count bound; the retained files, parsed by the monitor itself, must be a byte-identical suffix of the accepted writes; 6-15 time/resource and line-limited queries on ONE long-lived searcher and on fresh searchers vs. the expectation computed from the retained items; then the last data file and its index are cut at byte k on a copy (quick: every offset of the last 3 lines / 3 index entries plus sampled offsets; thorough: every offset of both files) and a fresh searcher must not fail or panic, must return only items that were written (not more often than written) and every item whose line and index entry lie wholly before the cut.',
   'Trusts the monitor\'s 10-line parser of the retained files and its own accepted-writes log; a line-limited query may return any limit-honouring prefix of the reference result (the library stops at a file boundary once the limit is reached); crash points are enumerated for the last file only.',
   'runtime history monitor (accepted-writes log vs searcher) + crash-point enumeration by file truncation', 'DESIGN.md §3 C17'),
 'C18': ('exploration',
   'Model-based monitor of the five JSON property handlers: generated delivery sequences (arrays of generated valid / field-wise invalid rules written by a hand-written encoder of the documented wire format incl. hot-param specific items of all four kinds, arrays with null elements, identical redelivery, truncated JSON at a random byte, wrongly typed elements, garbage, empty payload, JSON null, bad-then-good); after each delivery Handle\'s return (nil iff decodable), absence of panics and the module\'s rules in force (every field, canonical form = wire round trip) are compared with the valid rules described by the last decodable payload. Second engine: the refreshable file datasource on a scratch file under write / truncate-then-write / in-place corruption / rename-away / remove, convergence polled and only counted when a control fsnotify watcher owned by the monitor saw the event.',
   'Trusts the hand-written wire encoder and the monitor\'s transcription of rule validity; truncations are sampled, not every prefix; the file engine uses real inotify and a bounded wall-clock poll (inconclusive, not violated, when the control watcher saw nothing).',
   'runtime model-based monitor over payload sequences + fault-sequence monitor on a real watched file with a control observer', 'DESIGN.md §3 C18'),
 'C14': ('exploration',
   'Metamorphic twin-execution monitor: run A never reloads; run B replays the same generated traffic at the same relative virtual instants (shifted by one hour, a multiple of every window length) and reloads the rule list at a random position through the whole-set or the per-resource path, keeping one rule field-for-field identical (fresh object) while the other rules are added / removed / modified on another resource, or inert rules are added before / after, removed, modified, the unchanged rule is duplicated, or the list is reordered. Traces of (decision, block type, triggered rule id, requested sleep) must be equal. Families: reject rule on default / reused / standalone windows, throttling mid-queue, warm-up mid-ramp, breaker (closed with partial window / open with pending deadline / half-open), hot-param token and concurrency counters. Second clause: a modified rule with unchanged statistic parameters keeps its standalone window / error count / live counters.',
   'Assumes per-resource state is independent of the resource name and of absolute time modulo one hour; inert rules have thresholds of 1e9; edits are sampled from ten classes.',
   'runtime metamorphic monitor (twin executions with / without reload compared trace-for-trace)', 'DESIGN.md §3 C14'),
 'C15': ('exploration',
   'Race-detector stress monitor: 12 traffic goroutines over generation-coded flow / isolation / hot-param / system resources, un-churned always-block / always-pass resources, breaker, outlier and plain resources; one rule updater per module alternating whole-set and per-resource loads and clears; 4 reader goroutines calling every getter, node statistics, the node list and per-second items; a ticking virtual clock. Oracles: (1) every WARNING: DATA RACE block in the GORACE logs with a sentinel-golang frame is a violation signed by the innermost repo functions of the two accesses; (2) death of the process (panic, fatal error, checkptr) is a violation; (3) each decision on a generation-coded resource must be a block by the block-all rule of a single generation g with (last load completed before the call) <= g <= (last load begun before the return) - a pass or a mismatched (generation, position) id is a torn rule switch; (4) decisions on the un-churned resources are constant; (5) no progress for 60 s with >=2 goroutines parked on library mutexes is a deadlock.',
   'Samples the schedules the Go runtime produces (16 cores, Gosched / microsecond sleeps as perturbation); the race detector only sees accesses that actually execute; generation rules are made semantically different between generations so that controller re-use (equal-but-for-ID rules) cannot blur the generation id.',
   'Go race detector + online trace monitor (generation-coded rule lists) under parallel stress', 'DESIGN.md §3 C15'),
 'C16': ('exploration',
   'Trace monitor on generated chains of recording slots (order values with forced ties, 0-6 or 13-42 slots per kind, behaviours pass/nil/wait/block-fresh/block-by-mutating-context-result/panic, exit handlers error/panic): the complete call log of each Entry/Exit/re-Exit is compared with the sequence implied by the chain description (ascending order, stable ties, first block wins, statistic callbacks exactly once, fail-open), and every returned *BlockError is re-read after 1/10/100/1000 further entries that recycle pooled objects.',
   'Trusts the chain description as oracle; sequential, GOMAXPROCS=1 so that sync.Pool is a LIFO.',
   'runtime trace monitor (recorded call log vs expected sequence) on generated slot chains', 'DESIGN.md §3 C16'),
 'C05': ('exploration',
   'Envelope and metamorphic monitors over recorded per-value admission logs of generated multi-value arrival histories (virtual ms clock): reject mode E1 long-run envelope, E2 single-duration burst bound, E3 idle value granted; throttling mode pass-time spacing >= floor(batch*duration/threshold), requested sleep < max queueing, no sleep for rejected requests; requests without the selected argument (index out of range, missing key) never limited; projection equality: the decisions for a value in the full history equal those of the history containing only that value replayed at the same instants against a fresh rule; below-capacity cases checked for panics/termination only.',
   'Trusts the envelope formulas transcribed from the statement, the virtual clock and recorded (not slept) sleeps; sequential callers only.',
   'runtime envelope monitors over recorded admission logs + metamorphic (projection) differential on the real code', 'DESIGN.md §3 C05'),
 'C06': ('exploration',
   'Lock-step per-(rule,value) semaphore model vs. api.Entry/Exit on generated histories (index / negative index / attachment key selection, specific items over int/string/bool/float/struct/int64 values, threshold 0-4, nested and out-of-order exits, interleaved arg-less entries that recycle pooled objects), Input.Args of every live entry re-read after every op, capacity probe at quiescence; plus 16 goroutines under the race detector with barrier capacity probes (each value must admit exactly its threshold once everything has exited).',
   'Trusts the semaphore model; distinct live values stay below the parameter capacity; under real concurrency only conservation at quiescence and argument integrity are asserted (the statement gives no k-1 allowance and the check/increment window is real).',
   'runtime reference-model monitor + race-detector stress with quiescent capacity probes', 'DESIGN.md §3 C06'),
 'C07': ('exploration',
   'Reference-model monitor: for every inbound request of generated mixed inbound/outbound histories (overlapping requests, response times, clock steps around bucket boundaries, injected load / CPU readings around the triggers) the set of violated system rules is computed from the monitor\'s own aligned-window log of the inbound totals (QPS, in-flight, floor-average rt, load / cpu with the BBR capacity estimate peak-completion-rate x min-rt); the real decision must be a system block iff the set is non-empty, with a triggered rule from the set; outbound requests must never be blocked; invalid rules must not matter.',
   'Trusts ref.Win and the monitor\'s transcription of the five predicates; only system rules are loaded; any violated rule is accepted as the triggered one (map iteration order); sequential callers.',
   'runtime reference-model monitor (predicate over the monitor\'s own traffic log) under a virtual clock', 'DESIGN.md §3 C07'),
 'C08': ('exploration',
   'Reference-model monitor: every getter of BucketLeapArray / SlidingWindowMetric / BaseStatNode is compared with a naive aligned-bucket multiset model after every step of generated monotone virtual-time histories (hostile deltas: exact bucket/cycle boundaries, idle gaps beyond the array, near-zero times) over sampled valid geometries, plus an exhaustive constructibility grid. Held on the histories executed, nothing more.',
   'Trusts the 150-line reference model ref.Win and the virtual clock; sequential only (concurrency is C09); geometries and histories are sampled, the grid (13x16)^2 is exhaustive.',
   'runtime reference-model monitor (lock-step differential vs aligned-bucket model) under a virtual clock', 'DESIGN.md §3 C08'),
 'C20': ('exploration',
   'Reference-model monitor: one three-state reference breaker per node is stepped with the same completions as the real per-node breakers (chain = default + outlier rule-check and statistic slots; requests routed with TraceCallee, failures with TraceError, clock steps around the retry timeout); for every request FilterNodes() must contain only nodes whose reference breaker rejects at that instant, at most floor(pct x known nodes) of them (node counts 1-20, thorough up to 40; percentages incl. 0.07 / 0.29 / 0.57, thorough every 0.01), and HalfOpenNodes() must equal the passively probed nodes (empty with active recovery). Second engine: recycler scenarios on the real 1 s timer with a control node that never recovers; only after the control node has been observed gone must the recovered node still be known.',
   'Trusts ref.CB; node order is a map order so sets are compared; the retryer\'s check function always answers false and the recycle interval is the default, so real-time background work does not change breaker state during virtual-time histories; the recycler engine depends on real timers (inconclusive when the control node is not recycled within 5 s).',
   'runtime reference-model monitor (per-node reference breakers) + real-timer scenario with control observation', 'DESIGN.md §3 C20'),
}
not_yet = {}
hook_commits = []
fix_note = ''
man = {
 'version': 1,
 'setup_cmd': './setup.sh',
 'hooks': {
   'guard': 'verif',
   'enable': 'no source hooks are committed to /repo: yield points are injected at build time by cmd/vrun (go build -overlay swapping the sync/atomic import of selected files for verif/vatomic) and through the public slot-chain / clock / listener extension points',
   'baseline_off_cmd': 'cd /repo && for m in $(cat /w/out/gomods.txt); do (cd /repo/$m && go test -mod=mod -json -vet=off -count=1 -timeout 25m ./...); done',
   'source_commits': hook_commits,
   'add_only': True,
 },
 'engines': [],
 'checks': [],
 'not_applicable': [],
 'notes': 'Technique family: runtime monitoring and sanitizers. ./run.sh <ID> quick|thorough rebuilds the monitor engines against /repo\'s working tree, runs each in a child process and merges what they observed into evidence/<ID>.json. Exit 0 held-on-observed (KNOWN-FINDING lines for entries of known_findings.json), 1 VIOLATION, 2 INCONCLUSIVE.',
}
eng = {}
for pid in ids:
    if pid in checks:
        cat, text, note, tech, ref = checks[pid]
        man['checks'].append({
          'property_id': pid,
          'quick_cmd': f'./run.sh {pid} quick',
          'thorough_cmd': f'./run.sh {pid} thorough',
          'evidence_file': f'/verif/evidence/{pid}.json',
          'replay_cmd_template': './run.sh replay {path}',
          'engine': 'vrun',
          'level_claimed': {'category': cat, 'text': text, 'design_ref': ref},
          'level_note': note,
          'technique': tech,
        })
    else:
        man['not_applicable'].append({'property_id': pid, 'reason': not_yet.get(pid, 'monitor not built yet in this session (planned, see DESIGN.md §3); not claimed until its check is silent on the unchanged tree')})
man['engines'] = [{'name': 'vrun', 'path': '/verif/h/cmd/vrun', 'serves_properties': [c['property_id'] for c in man['checks']],
                   'kind_free_text': 'Go driver: builds per-property monitor engines (reference-model, trace, cooperative-scheduler, race-detector) against /repo and merges their partial evidence'}]
json.dump(man, open(f'{V}/MANIFEST.json', 'w'), indent=1)
print('checks:', [c['property_id'] for c in man['checks']])
