#!/usr/bin/env python3
"""Regenerates /verif/MANIFEST.json from the table below (single source of truth)."""
import json, subprocess, os
V = '/verif'
props = [json.loads(l) for l in open(f'{V}/properties.jsonl')]
ids = [p['id'] for p in props]

# id -> (level category, level text, level note, technique, design ref)
checks = {
 'C08': ('exploration',
   'Reference-model monitor: every getter of BucketLeapArray / SlidingWindowMetric / BaseStatNode is compared with a naive aligned-bucket multiset model after every step of generated monotone virtual-time histories (hostile deltas: exact bucket/cycle boundaries, idle gaps beyond the array, near-zero times) over sampled valid geometries, plus an exhaustive constructibility grid. Held on the histories executed, nothing more.',
   'Trusts the 150-line reference model ref.Win and the virtual clock; sequential only (concurrency is C09); geometries and histories are sampled, the grid (13x16)^2 is exhaustive.',
   'runtime reference-model monitor (lock-step differential vs aligned-bucket model) under a virtual clock', 'DESIGN.md §3 C08'),
}
not_yet = {}
hook_commits = []
fix_note = ''
man = {
 'version': 1,
 'setup_cmd': './setup.sh',
 'hooks': {
   'guard': 'verif',
   'enable': 'no source hooks are committed to /repo: yield points are injected at build time by cmd/vrun (go build -overlay swapping the sync/atomic import of selected files for verif/vatomic) and through the public slot-chain / clock / listener extension points',
   'baseline_off_cmd': 'cd /repo && for m in $(cat /w/out/gomods.txt); do (cd /repo/$m && go test -mod=mod -json -vet=off -count=1 -timeout 25m ./...); done',
   'source_commits': hook_commits,
   'add_only': True,
 },
 'engines': [],
 'checks': [],
 'not_applicable': [],
 'notes': 'Technique family: runtime monitoring and sanitizers. ./run.sh <ID> quick|thorough rebuilds the monitor engines against /repo\'s working tree, runs each in a child process and merges what they observed into evidence/<ID>.json. Exit 0 held-on-observed (KNOWN-FINDING lines for entries of known_findings.json), 1 VIOLATION, 2 INCONCLUSIVE.',
}
eng = {}
for pid in ids:
    if pid in checks:
        cat, text, note, tech, ref = checks[pid]
        man['checks'].append({
          'property_id': pid,
          'quick_cmd': f'./run.sh {pid} quick',
          'thorough_cmd': f'./run.sh {pid} thorough',
          'evidence_file': f'/verif/evidence/{pid}.json',
          'replay_cmd_template': './run.sh replay {path}',
          'engine': 'vrun',
          'level_claimed': {'category': cat, 'text': text, 'design_ref': ref},
          'level_note': note,
          'technique': tech,
        })
    else:
        man['not_applicable'].append({'property_id': pid, 'reason': not_yet.get(pid, 'monitor not built yet in this session (planned, see DESIGN.md §3); not claimed until its check is silent on the unchanged tree')})
man['engines'] = [{'name': 'vrun', 'path': '/verif/h/cmd/vrun', 'serves_properties': [c['property_id'] for c in man['checks']],
                   'kind_free_text': 'Go driver: builds per-property monitor engines (reference-model, trace, cooperative-scheduler, race-detector) against /repo and merges their partial evidence'}]
json.dump(man, open(f'{V}/MANIFEST.json', 'w'), indent=1)
print('checks:', [c['property_id'] for c in man['checks']])
