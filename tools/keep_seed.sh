#!/bin/bash
# keep_seed.sh <ID> <agent-out-dir> <name>   confirm a seeded change, test the property's check against it, and file it under seeded/<name>/
set -u
id=$1; out=$2; name=$3
log=/var/tmp/keep-$name.log
/verif/tools/confirm_seed.sh $out $name > $log 2>&1
conf=$(grep -c "^CONFIRMED" $log)
/verif/tools/seedtest.sh $id $out/patch.diff quick >> $log 2>&1
det=$(grep "^SEEDTEST" $log | tail -1)
mkdir -p /verif/seeded/$name
cp $out/patch.diff /verif/seeded/$name/patch.diff
find $out -name '*_test.go' -exec cp {} /verif/seeded/$name/ \;
python3 - "$out/meta.json" "/verif/seeded/$name/meta.json" "$conf" "$det" "$log" <<'PY'
import json,sys,re
m=json.load(open(sys.argv[1]))
log=open(sys.argv[5]).read()
m['confirmed_in_scratch_worktree']= sys.argv[3]!='0'
m['confirm_line']=[l for l in log.splitlines() if l.startswith('CONFIRM ')][-1:] 
m['check_result']=sys.argv[4]
m['check_output']=[l[:300] for l in log.splitlines() if l.startswith(('VIOLATION','SUMMARY','INCONCLUSIVE'))][:6]
m['what_i_ran']='tools/confirm_seed.sh (fresh worktree of /repo HEAD: demo passes without patch, patch applies and builds, demo fails with patch, repository test suite passes with patch) and tools/seedtest.sh <ID> patch.diff quick (check run against a scratch worktree carrying the patch)'
json.dump(m,open(sys.argv[2],'w'),indent=1)
print(m['property'], 'confirmed=',m['confirmed_in_scratch_worktree'], m['check_result'])
PY
