#!/bin/bash
# seedtest.sh <ID> <patch.diff> [tier]
# Tries a seeded change WITHOUT touching /repo: a scratch worktree of /repo HEAD gets the patch and the
# property's check is run against it (VERIF_REPO); evidence / replays of such runs go to /var/tmp/verif-seed-out.
set -u
id=$1; patch=$2; tier=${3:-quick}
wt=/tmp/seed-$id-$$
git -C /repo worktree add -q --detach $wt HEAD || exit 2
trap 'git -C /repo worktree remove --force '$wt' 2>/dev/null' EXIT
( cd $wt && git apply "$patch" ) || { echo "SEEDTEST $id: patch does not apply"; exit 2; }
cd /verif && VERIF_REPO=$wt ./run.sh $id $tier > /var/tmp/seedtest-$id-$$.out 2>&1; rc=$?
grep -E "^(VIOLATION|INCONCLUSIVE|KNOWN-FINDING|SUMMARY)" /var/tmp/seedtest-$id-$$.out | cut -c1-330 | head -8
echo "SEEDTEST $id exit=$rc"
