#!/bin/bash
# thor.sh <ID>...: runs the thorough tier of the given checks one after the other and prints one line per check (VERIF_REPO / VERIF_SEED are honoured)
cd /verif
for id in "$@"; do t0=$(date +%s); out=$(./run.sh $id thorough 2>&1); rc=$?; echo "$id thorough rc=$rc $(( $(date +%s)-t0 ))s"; echo "$out" | grep -E '^(VIOLATION|KNOWN|INCONCLUSIVE|SUMMARY)' | cut -c1-300 | head -5; done
echo THORDONE
