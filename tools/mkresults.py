#!/usr/bin/env python3
# regenerates seeded/RESULTS.md from seeded/*/meta.json + result.json
import json,os,glob,subprocess
os.chdir('/verif/seeded')
head=subprocess.run(['git','-C','/repo','rev-parse','--short','HEAD'],capture_output=True,text=True).stdout.strip()
rows=[];tot=own=cross=0;und=[]
def cell(s,n): return (s or '').replace('|','//').replace('\n',' ')[:n]
for d in sorted(x for x in os.listdir('.') if os.path.isfile(x+'/meta.json')):
    m=json.load(open(d+'/meta.json'))
    r=json.load(open(d+'/result.json')) if os.path.exists(d+'/result.json') else {}
    tot+=1
    sig=r.get('own_first_signature','')
    if r.get('own_check_exit')==1: res='caught'; own+=1
    else:
        cs=[c for c in r.get('cross',[]) if c.get('exit')=='1']
        if cs: res='own check silent; caught by '+', '.join(c['check']+' ('+c['signature']+')' for c in cs); cross+=1
        else: res='own check silent'; und.append(d)
    rows.append(f"| {d} | {m.get('property','')} | {m.get('confirmed',True)} | {cell(m.get('summary'),200)} | {cell(m.get('needs_to_manifest'),160)} | {sig} | {res} |")
out=f"""# Seeded changes

Each directory holds patch.diff, the demonstration test written by the independent sub-agent, meta.json (what it breaks, what it needs to manifest, what was run when it was filed; `check_result` there is the outcome with the machinery of that moment) and result.json (outcome of `tools/retest_seeds.sh` with the machinery as committed, /repo at `{head}`). Suffix -a: first round (one change per property), -b/-c/-d: second round, -e/-f/-g: third round (hold-out), -h/-i/-j: fourth round ("subtler" prompt), -k/-l/-m: fifth round, -n/-o/-p: sixth round ("two cooperating sites" prompt, 12 properties), -q/-r/-s: seventh round (the other 8 properties), -t/-u: eighth round (two changes per property from 20 agents under a 12-20-minute budget, prompt widened to shared helpers and unusual-but-valid inputs).

{tot} seeded changes: {own} caught by the quick check of their own property, {cross} only by the quick check of another property, {len(und)} by none ({', '.join(und)}; see DESIGN.md section 8).

| seed | property | confirmed | change | needs | first violation signature (own check, quick tier) | result |
|---|---|---|---|---|---|---|
"""+'\n'.join(rows)+'\n'
open('RESULTS.md','w').write(out)
print(tot,own,cross,und)
