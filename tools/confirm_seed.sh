#!/bin/bash
# confirm_seed.sh <out-dir produced by a mutation agent>  [id]
# Confirms, in a fresh scratch worktree of /repo HEAD: the patch applies and builds, the demo fails with it
# and passes without it, and the repository's existing tests still pass with it. Removes the worktree.
set -u
export GOFLAGS=-mod=mod GOPROXY=off GOSUMDB=off GOTOOLCHAIN=local
out=$1
id=${2:-$(basename $out)}
wt=/tmp/confirm-$id
git -C /repo worktree remove --force $wt 2>/dev/null
git -C /repo worktree add -q --detach $wt HEAD || exit 2
trap 'git -C /repo worktree remove --force '$wt' 2>/dev/null' EXIT
demo=$(python3 -c "import json;print(json.load(open('$out/meta.json'))['demo_path'].split()[0])")
rawcmd=$(python3 -c "import json;print(json.load(open('$out/meta.json'))['demo_cmd'])")
src=$(find $out -name "$(basename $demo)" | head -1)
[ -z "$src" ] && src=$(find $out -name "*_test.go" | head -1)
[ -z "$src" ] && { echo "CONFIRM $id: no demo test file"; exit 1; }
mkdir -p $wt/$(dirname $demo); cp $src $wt/$demo
# the command is derived from the demo file itself (the agents' demo_cmd strings carry prose): the tests it
# defines, run in its package, from the directory of the nearest go.mod
tests=$(grep -oE '^func (Test[A-Za-z0-9_]+)' $src | awk '{print $2}' | paste -sd'|')
pkgdir=$(dirname $demo); moddir=$pkgdir
while [ "$moddir" != "." ] && [ ! -f $wt/$moddir/go.mod ]; do moddir=$(dirname $moddir); done
rel=${pkgdir#$moddir}; rel=${rel#/}; [ "$moddir" = "." ] && rel=$pkgdir
race=""; case "$rawcmd" in *-race*) race="-race";; esac
cmd="cd $wt/$moddir && go test -mod=mod -vet=off -count=1 $race -run '^($tests)\$' ./$rel"
echo "demo command: $cmd"
cd $wt
echo "--- demo WITHOUT patch (expect pass)"
( eval "$cmd" ) > /tmp/confirm-$id.nopatch.log 2>&1; r0=$?
git apply $out/patch.diff || { echo "CONFIRM $id: patch does not apply"; exit 1; }
go build ./... > /tmp/confirm-$id.build.log 2>&1 || { echo "CONFIRM $id: build fails"; tail -5 /tmp/confirm-$id.build.log; exit 1; }
echo "--- demo WITH patch (expect fail)"
( eval "$cmd" ) > /tmp/confirm-$id.patch.log 2>&1; r1=$?
echo "--- existing tests WITH patch (expect pass)"
rm -f $wt/$demo
mods="."
if git -C $wt diff --name-only | grep -q '^pkg/adapters/'; then mods=$(git -C $wt diff --name-only | grep '^pkg/adapters/' | cut -d/ -f1-3 | sort -u); fi
r2=0
for m in $mods; do ( cd $wt/$m && go test -mod=mod -vet=off -count=1 ./... ) > /tmp/confirm-$id.suite.log 2>&1; grep -E "^(FAIL[[:space:]]+[^[:space:]]|[[:space:]]*--- FAIL)" /tmp/confirm-$id.suite.log | grep -v "TestHotSpotParamRuleJsonArrayParser\|sentinel-golang/ext/datasource[[:space:]]" > /tmp/confirm-$id.fails; if [ -s /tmp/confirm-$id.fails ]; then
  # timing-sensitive tests of the repository (CPU statistics, recycler timers) fail now and then on a loaded machine:
  # a package counts as failing only if it fails again when run on its own, twice
  pk=$(grep -E "^FAIL[[:space:]]" /tmp/confirm-$id.fails | awk '{print $2}' | sed "s#github.com/alibaba/sentinel-golang#.#")
  still=""
  for p in $pk; do ( cd $wt/$m && go test -mod=mod -vet=off -count=1 $p >/dev/null 2>&1 || go test -mod=mod -vet=off -count=1 $p >/dev/null 2>&1 ) || still="$still $p"; done
  [ -n "$still" ] && r2=1 && echo "still failing on their own:$still"
fi; done
echo "CONFIRM $id: demo_without_patch_exit=$r0 demo_with_patch_exit=$r1 suite_fail=$r2"
[ $r2 = 1 ] && cat /tmp/confirm-$id.fails | head
[ $r0 = 0 ] && [ $r1 != 0 ] && [ $r2 = 0 ] && echo "CONFIRMED $id" || echo "NOT-CONFIRMED $id"
