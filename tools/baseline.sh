#!/bin/bash
# Runs the repository's pinned baseline suite (hooks off: there are none in /repo) and compares with BASELINE.json stable_pass.
export GOFLAGS=-mod=mod GOPROXY=off GOSUMDB=off GOTOOLCHAIN=local
out=${1:-/var/tmp/baseline.json}
: > $out
for m in $(cat /w/out/gomods.txt); do (cd /repo/$m && go test -mod=mod -json -vet=off -count=1 -timeout 25m ./... >> $out 2>/dev/null); done
python3 - "$out" <<'PY'
import json,sys
base=json.load(open('/root/.vp/BASELINE.json'))
want=set(base['stable_pass'])
got={}
for l in open(sys.argv[1]):
    try: e=json.loads(l)
    except: continue
    if e.get('Test') and e.get('Action') in ('pass','fail','skip'):
        got[e['Package']+'::'+e['Test']]=e['Action']
missing=[t for t in want if got.get(t)!='pass']
print('stable_pass:',len(want),'passing now:',len(want)-len(missing),'not passing:',len(missing))
for t in missing[:40]: print('  ',t,got.get(t))
PY
