#!/bin/bash
# keep_round2.sh <ID>   confirm + try + file the (up to three) round-2 changes of one property: /tmp/m2-<ID>-out/{A,B,C} -> seeded/<ID>-{b,c,d}
id=$1
for pair in A:b B:c C:d; do
  d=${pair%%:*}; n=${pair##*:}
  [ -f /tmp/m2-$id-out/$d/patch.diff ] && [ -f /tmp/m2-$id-out/$d/meta.json ] || continue
  /verif/tools/keep_seed.sh $id /tmp/m2-$id-out/$d $id-$n &
done
wait
