#!/bin/bash
# tools/sweep.sh <tier> [seed...]  - runs every claimed check at the given VERIF_SEED values (default: the built-in seed)
# against /repo and prints one line per run.  Evidence files are rewritten by each run (the last one wins).
cd "$(dirname "$0")/.."
tier=${1:-quick}; shift
seeds=("$@"); [ ${#seeds[@]} -eq 0 ] && seeds=("")
for s in "${seeds[@]}"; do
  for i in $(seq -w 1 20); do
    id=C$i; t0=$(date +%s)
    out=$(VERIF_SEED=$s ./run.sh $id $tier 2>&1); rc=$?
    echo "seed=${s:-default} $id rc=$rc $(( $(date +%s)-t0 ))s $(echo "$out" | grep -c '^VIOLATION') viol $(echo "$out" | grep -c '^KNOWN-FINDING') known $(echo "$out" | grep -m1 'INCONCLUSIVE' | cut -c1-120)"
    [ $rc -ne 0 ] && echo "$out" | grep -v '^\s*$' | tail -15 | sed 's/^/    /'
  done
done
