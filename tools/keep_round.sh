#!/bin/bash
# keep_round.sh <prefix> <letters> <ID>   e.g. keep_round.sh m3 efg C07: confirm + try + file /tmp/<prefix>-<ID>-out/{A,B,C} as seeded/<ID>-{e,f,g}
pre=$1; letters=$2; id=$3
i=0
for d in A B C; do
  n=${letters:$i:1}; i=$((i+1))
  [ -f /tmp/$pre-$id-out/$d/patch.diff ] && [ -f /tmp/$pre-$id-out/$d/meta.json ] || continue
  /verif/tools/keep_seed.sh $id /tmp/$pre-$id-out/$d $id-$n &
done
wait
