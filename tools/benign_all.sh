#!/bin/bash
# benign_all.sh [parallelism]: runs, for every property-preserving change filed under benign/, the quick checks named for
# it in benign/PLAN.txt / PLAN2.txt against a scratch worktree carrying the change; prints one line per (change, check).
cd /verif
cat benign/PLAN.txt benign/PLAN2.txt benign/PLAN3.txt | xargs -P ${1:-3} -L 1 bash -c 'n=$1; shift; /verif/tools/benign_test.sh /verif/benign/$n "$@"'
