package fiber

import (
	"errors"
	"net/http"
	"net/http/httptest"
	"testing"

	"github.com/gofiber/fiber/v2"
	"github.com/gofiber/fiber/v2/middleware/recover"
)

// drives SentinelMiddleware through a real fiber app (app.Test: in-memory connection).
// The middleware returns ctx.Next(), i.e. the handler's error passes through the
// adapter: errVisible=true. Default resource = route method + ":" + request path.
func TestVerifC19Fiber(t *testing.T) {
	defer c19Finish()
	for _, withFallback := range []bool{false, true} {
		for _, handler := range []string{"ok", "error", "panic"} {
			for _, blocked := range []bool{false, true} {
				calls := 0
				fallbackHit := false
				var opts []Option
				if withFallback {
					opts = append(opts, WithBlockFallback(func(c *fiber.Ctx) error {
						fallbackHit = true
						return c.SendStatus(http.StatusServiceUnavailable)
					}))
				}
				app := fiber.New(fiber.Config{DisableStartupMessage: true})
				app.Use(recover.New()) // outermost, as applications do
				app.Use(SentinelMiddleware(opts...))
				app.Get("/c19/:id", func(c *fiber.Ctx) error {
					calls++
					switch handler {
					case "error":
						return errors.New("handler error")
					case "panic":
						panic("handler panic")
					}
					return c.SendString("ok")
				})
				res := "GET:/c19/7"
				if blocked {
					c19SetBlocked(res)
				} else {
					c19SetBlocked()
				}
				scenario := "default-rejection"
				if withFallback {
					scenario = "configured-fallback"
				}
				c19Case(t, "fiber", "SentinelMiddleware", scenario, res, blocked, handler, true, func() c19Drive {
					resp, err := app.Test(httptest.NewRequest("GET", "/c19/7", nil), -1)
					if err != nil {
						t.Fatalf("app.Test: %v", err)
					}
					rejected := resp.StatusCode == http.StatusTooManyRequests
					if withFallback {
						rejected = fallbackHit && resp.StatusCode == http.StatusServiceUnavailable
					}
					return c19Drive{HandlerCalls: calls, Rejected: rejected}
				})
			}
		}
	}
	// custom resource extractor
	calls := 0
	app := fiber.New(fiber.Config{DisableStartupMessage: true})
	app.Use(SentinelMiddleware(WithResourceExtractor(func(c *fiber.Ctx) string { return "c19-custom-" + c.Query("id") })))
	app.Get("/x", func(c *fiber.Ctx) error { calls++; return c.SendString("ok") })
	for _, blocked := range []bool{false, true} {
		calls = 0
		if blocked {
			c19SetBlocked("c19-custom-9")
		} else {
			c19SetBlocked()
		}
		c19Case(t, "fiber", "SentinelMiddleware", "resource-extractor", "c19-custom-9", blocked, "ok", true, func() c19Drive {
			resp, err := app.Test(httptest.NewRequest("GET", "/x?id=9", nil), -1)
			if err != nil {
				t.Fatalf("app.Test: %v", err)
			}
			return c19Drive{HandlerCalls: calls, Rejected: resp.StatusCode == http.StatusTooManyRequests}
		})
	}
	c19SetBlocked()
}
