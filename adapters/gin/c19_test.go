package gin

import (
	"net/http"
	"net/http/httptest"
	"testing"

	"github.com/gin-gonic/gin"
)

// drives SentinelMiddleware through a real gin engine
func TestVerifC19Gin(t *testing.T) {
	defer c19Finish()
	gin.SetMode(gin.ReleaseMode)
	for _, withFallback := range []bool{false, true} {
		for _, handler := range []string{"ok", "error", "panic"} {
			for _, blocked := range []bool{false, true} {
				calls := 0
				fallbackHit := false
				var opts []Option
				if withFallback {
					opts = append(opts, WithBlockFallback(func(c *gin.Context) {
						fallbackHit = true
						c.AbortWithStatus(http.StatusServiceUnavailable)
					}))
				}
				r := gin.New()
				r.Use(gin.Recovery()) // outermost: turns a handler panic into a 500, as applications do
				r.Use(SentinelMiddleware(opts...))
				r.GET("/c19/:id", func(c *gin.Context) {
					calls++
					switch handler {
					case "error":
						c.AbortWithStatus(http.StatusInternalServerError)
					case "panic":
						panic("handler panic")
					default:
						c.String(http.StatusOK, "ok")
					}
				})
				res := "GET:/c19/:id"
				if blocked {
					c19SetBlocked(res)
				} else {
					c19SetBlocked()
				}
				scenario := "default-rejection"
				if withFallback {
					scenario = "configured-fallback"
				}
				c19Case(t, "gin", "SentinelMiddleware", scenario, res, blocked, handler, false, func() c19Drive {
					w := httptest.NewRecorder()
					req := httptest.NewRequest("GET", "/c19/7", nil)
					r.ServeHTTP(w, req)
					rejected := w.Code == http.StatusTooManyRequests
					if withFallback {
						rejected = fallbackHit && w.Code == http.StatusServiceUnavailable
					}
					return c19Drive{HandlerCalls: calls, Rejected: rejected}
				})
			}
		}
	}
	// custom resource extractor
	calls := 0
	r := gin.New()
	r.Use(SentinelMiddleware(WithResourceExtractor(func(c *gin.Context) string { return "c19-custom-" + c.Param("id") })))
	r.GET("/x/:id", func(c *gin.Context) { calls++; c.String(200, "ok") })
	for _, blocked := range []bool{false, true} {
		calls = 0
		if blocked {
			c19SetBlocked("c19-custom-9")
		} else {
			c19SetBlocked()
		}
		c19Case(t, "gin", "SentinelMiddleware", "resource-extractor", "c19-custom-9", blocked, "ok", false, func() c19Drive {
			w := httptest.NewRecorder()
			r.ServeHTTP(w, httptest.NewRequest("GET", "/x/9", nil))
			return c19Drive{HandlerCalls: calls, Rejected: w.Code == http.StatusTooManyRequests}
		})
	}
	// an earlier middleware has already started the response (streaming preamble, early flush): a blocked request must
	// still be stopped there (the status can no longer change, so "rejected" = the chain was aborted before the handler)
	calls = 0
	r2 := gin.New()
	r2.Use(func(c *gin.Context) {
		c.Writer.WriteHeader(http.StatusOK)
		c.Writer.WriteHeaderNow()
		_, _ = c.Writer.WriteString("preamble;")
		c.Next()
	})
	r2.Use(SentinelMiddleware())
	later := 0
	r2.Use(func(c *gin.Context) { later++; c.Next() })
	r2.GET("/s/:id", func(c *gin.Context) { calls++; _, _ = c.Writer.WriteString("body") })
	for _, blocked := range []bool{false, true} {
		calls, later = 0, 0
		if blocked {
			c19SetBlocked("GET:/s/:id")
		} else {
			c19SetBlocked()
		}
		c19Case(t, "gin", "SentinelMiddleware", "response-already-started", "GET:/s/:id", blocked, "ok", false, func() c19Drive {
			w := httptest.NewRecorder()
			r2.ServeHTTP(w, httptest.NewRequest("GET", "/s/1", nil))
			return c19Drive{HandlerCalls: calls, Rejected: calls == 0 && later == 0}
		})
	}
	// an explicitly nil fallback option is "no fallback configured": a blocked request gets the default rejection and
	// the handler is not invoked
	calls = 0
	r3 := gin.New()
	r3.Use(SentinelMiddleware(WithBlockFallback(nil)))
	r3.GET("/n/:id", func(c *gin.Context) { calls++; c.String(200, "ok") })
	for _, blocked := range []bool{false, true} {
		calls = 0
		if blocked {
			c19SetBlocked("GET:/n/:id")
		} else {
			c19SetBlocked()
		}
		c19Case(t, "gin", "SentinelMiddleware", "nil-fallback-option", "GET:/n/:id", blocked, "ok", false, func() c19Drive {
			w := httptest.NewRecorder()
			r3.ServeHTTP(w, httptest.NewRequest("GET", "/n/1", nil))
			return c19Drive{HandlerCalls: calls, Rejected: w.Code == http.StatusTooManyRequests}
		})
	}
	c19SetBlocked()
}
