package goframe

import (
	"fmt"
	"net/http"
	"net/http/httptest"
	"testing"

	"github.com/gogf/gf/v2/frame/g"
	"github.com/gogf/gf/v2/net/ghttp"
)

// drives SentinelMiddleware through a real ghttp.Server: requests go through
// s.ServeHTTP with httptest (as the adapter's own tests do). The server has to be
// started once (Start initialises the session manager ServeHTTP needs); it binds
// 127.0.0.1:0 but no request uses the socket. A ghttp handler returns nothing and
// r.Middleware.Next() returns nothing: errVisible=false. ghttp itself recovers
// handler panics (-> 500). Default resource = METHOD:URL.Path.
var c19GfSeq int

func c19GfServer(path string, h ghttp.HandlerFunc, opts ...Option) *ghttp.Server {
	c19GfSeq++
	s := g.Server(fmt.Sprintf("c19-%d", c19GfSeq))
	s.SetErrorLogEnabled(false)
	s.SetAccessLogEnabled(false)
	s.SetErrorStack(false)
	s.SetDumpRouterMap(false)
	s.SetLogStdout(false)
	s.Logger().SetStdoutPrint(false)
	s.SetAddr("127.0.0.1:0")
	s.Group("/", func(group *ghttp.RouterGroup) {
		group.Middleware(SentinelMiddleware(opts...))
		group.GET(path, h)
	})
	if err := s.Start(); err != nil {
		panic(err)
	}
	return s
}

func TestVerifC19Goframe(t *testing.T) {
	defer c19Finish()
	for _, withFallback := range []bool{false, true} {
		for _, handler := range []string{"ok", "error", "panic"} {
			for _, blocked := range []bool{false, true} {
				calls := 0
				fallbackHit := false
				var opts []Option
				if withFallback {
					opts = append(opts, WithBlockFallback(func(r *ghttp.Request) {
						fallbackHit = true
						r.Response.WriteStatus(http.StatusServiceUnavailable, "fallback")
					}))
				}
				s := c19GfServer("/c19/:id", func(r *ghttp.Request) {
					calls++
					switch handler {
					case "error":
						r.SetError(fmt.Errorf("handler error"))
						r.Response.WriteStatus(http.StatusInternalServerError, "handler error")
					case "panic":
						panic("handler panic")
					default:
						r.Response.Write("ok")
					}
				}, opts...)
				defer s.Shutdown()
				res := "GET:/c19/7"
				if blocked {
					c19SetBlocked(res)
				} else {
					c19SetBlocked()
				}
				scenario := "default-rejection"
				if withFallback {
					scenario = "configured-fallback"
				}
				c19Case(t, "goframe", "SentinelMiddleware", scenario, res, blocked, handler, false, func() c19Drive {
					w := httptest.NewRecorder()
					s.ServeHTTP(w, httptest.NewRequest("GET", "/c19/7", nil))
					rejected := w.Code == http.StatusTooManyRequests
					if withFallback {
						rejected = fallbackHit && w.Code == http.StatusServiceUnavailable
					}
					return c19Drive{HandlerCalls: calls, Rejected: rejected}
				})
			}
		}
	}
	// custom resource extractor
	calls := 0
	s := c19GfServer("/x/:id", func(r *ghttp.Request) { calls++; r.Response.Write("ok") },
		WithResourceExtractor(func(r *ghttp.Request) string { return "c19-custom-" + r.Get("id").String() }))
	defer s.Shutdown()
	for _, blocked := range []bool{false, true} {
		calls = 0
		if blocked {
			c19SetBlocked("c19-custom-9")
		} else {
			c19SetBlocked()
		}
		c19Case(t, "goframe", "SentinelMiddleware", "resource-extractor", "c19-custom-9", blocked, "ok", false, func() c19Drive {
			w := httptest.NewRecorder()
			s.ServeHTTP(w, httptest.NewRequest("GET", "/x/9", nil))
			return c19Drive{HandlerCalls: calls, Rejected: w.Code == http.StatusTooManyRequests}
		})
	}
	c19SetBlocked()
}
