package kratos

import (
	"context"
	"errors"
	"fmt"
	"testing"

	"github.com/go-kratos/kratos/v2/metadata"
	"github.com/go-kratos/kratos/v2/selector"
	"github.com/go-kratos/kratos/v2/transport"

	"github.com/alibaba/sentinel-golang/core/base"
	"github.com/alibaba/sentinel-golang/core/circuitbreaker"
	"github.com/alibaba/sentinel-golang/core/outlier"
	"github.com/alibaba/sentinel-golang/core/stat"
)

// SentinelClientMiddleware is invoked directly (middleware(handler)(ctx, req)) with the
// context a kratos transport client prepares before running its middleware chain:
// a client Transporter (operation + endpoint), client metadata, and an (empty)
// selector.Peer that the balancer's picker fills in while the wrapped handler runs.
// The middleware receives the handler's error: errVisible=true.
// Nothing in a kratos client chain recovers panics: they propagate (caught here to
// keep the handler count; reported as Panicked).
//
// Outlier branch: the adapter builds a PRIVATE slot chain per call
// (sentinel.BuildDefaultSlotChain), so the helper's StatSlot on the global chain sees
// nothing. For these cases the driver reads what the built-in stat.DefaultSlot of that
// private chain recorded on the resource's stat node (pass / block / complete / error
// sums; every case uses a fresh resource name, read within the same 500 ms bucket)
// and hands it to the helper as the equivalent passed / blocked / completed events.
// The helper's contract check itself is unchanged.

var (
	c19ErrHandler  = errors.New("handler error")
	c19ErrFallback = errors.New("fallback")
	c19Seq         int
)

type c19Transport struct{ endpoint, operation string }

func (t c19Transport) Kind() transport.Kind            { return transport.KindGRPC }
func (t c19Transport) Endpoint() string                { return t.endpoint }
func (t c19Transport) Operation() string               { return t.operation }
func (t c19Transport) RequestHeader() transport.Header { return nil }
func (t c19Transport) ReplyHeader() transport.Header   { return nil }

func c19Guard(f func()) (panicked bool) {
	defer func() {
		if r := recover(); r != nil {
			panicked = true
		}
	}()
	f()
	return
}

func c19Block(res string, blocked bool) {
	if blocked {
		c19SetBlocked(res)
	} else {
		c19SetBlocked()
	}
}

func c19IsBlockErr(err error) bool {
	be, ok := err.(*base.BlockError)
	return ok && be != nil
}

// c19NodeEvents turns what stat.DefaultSlot recorded on the (fresh) resource node into helper events.
func c19NodeEvents(res string) {
	n := stat.GetResourceNode(res)
	if n == nil {
		return
	}
	c19mu.Lock()
	defer c19mu.Unlock()
	for i := int64(0); i < n.GetSum(base.MetricEventPass); i++ {
		c19events = append(c19events, c19Event{"passed", res, false})
	}
	for i := int64(0); i < n.GetSum(base.MetricEventBlock); i++ {
		c19events = append(c19events, c19Event{"blocked", res, false})
	}
	errs := n.GetSum(base.MetricEventError)
	for i := int64(0); i < n.GetSum(base.MetricEventComplete); i++ {
		c19events = append(c19events, c19Event{"completed", res, i < errs})
	}
}

// c19OutlierRule gives the service an outlier rule (thresholds far away: nothing is ejected), as an
// application that enables the outlier branch has one.
func c19OutlierRule(res string) {
	_, err := outlier.LoadRuleOfResource(res, &outlier.Rule{
		Rule: &circuitbreaker.Rule{Resource: res, Strategy: circuitbreaker.ErrorCount, RetryTimeoutMs: 3000,
			MinRequestAmount: 1000, StatIntervalMs: 1000, Threshold: 1000},
		MaxEjectionPercent: 0.5, RecoveryIntervalMs: 2000, MaxRecoveryAttempts: 5,
	})
	if err != nil {
		panic(err)
	}
}

// regular (non outlier) branch
func TestVerifC19KratosClient(t *testing.T) {
	defer c19Finish()
	const op = "/c19.Svc/Call"
	type scn struct {
		name                string
		fallback, extractor bool
	}
	for _, s := range []scn{{"default-rejection", false, false}, {"configured-fallback", true, false}, {"resource-extractor", false, true}} {
		for _, handler := range []string{"ok", "error", "panic"} {
			for _, blocked := range []bool{false, true} {
				res := op
				fallbackHit := false
				var opts []Option
				if s.fallback {
					opts = append(opts, WithBlockFallback(func(context.Context, interface{}, error) (interface{}, error) {
						fallbackHit = true
						return nil, c19ErrFallback
					}))
				}
				if s.extractor {
					res = "c19-custom:req-9"
					opts = append(opts, WithResourceExtract(func(_ context.Context, req interface{}) string { return fmt.Sprintf("c19-custom:%v", req) }))
				}
				c19Block(res, blocked)
				mw := SentinelClientMiddleware(opts...)
				c19Case(t, "kratos", "SentinelClientMiddleware", s.name, res, blocked, handler, true, func() c19Drive {
					calls := 0
					var err error
					ctx := transport.NewClientContext(context.Background(), c19Transport{"discovery:///c19-svc", op})
					p := c19Guard(func() {
						_, err = mw(func(context.Context, interface{}) (interface{}, error) {
							calls++
							switch handler {
							case "error":
								return nil, c19ErrHandler
							case "panic":
								panic("handler panic")
							}
							return "resp", nil
						})(ctx, "req-9")
					})
					rejected := c19IsBlockErr(err)
					if s.fallback {
						rejected = fallbackHit && err == c19ErrFallback
					}
					return c19Drive{HandlerCalls: calls, Rejected: rejected, Panicked: p}
				})
			}
		}
	}
	c19SetBlocked()
}

// outlier-enabled branch (WithEnableOutlier), driven together with OutlierClientFilter,
// the selector.NodeFilter that consumes what the middleware put into the client metadata.
func TestVerifC19KratosOutlier(t *testing.T) {
	defer c19Finish()
	nodes := []selector.Node{selector.NewNode("grpc", "10.0.0.1:9000", nil), selector.NewNode("grpc", "10.0.0.2:9000", nil)}
	type scn struct {
		name               string
		ep                 string
		fallback, md, peer bool
	}
	scns := []scn{
		{"outlier-enabled", "SentinelClientMiddleware", false, true, true},
		{"outlier-enabled+configured-fallback", "SentinelClientMiddleware", true, true, true},
		{"outlier-enabled/no-client-metadata", "SentinelClientMiddleware", false, false, true},
		{"outlier-enabled/no-node-picked", "SentinelClientMiddleware", false, true, false},
		{"outlier-pipeline(middleware+node-filter)", "OutlierClientFilter", false, true, true},
	}
	for _, s := range scns {
		for _, handler := range []string{"ok", "error", "panic"} {
			for _, blocked := range []bool{false, true} {
				if blocked && s.ep == "OutlierClientFilter" {
					// the node filter is only reached from the wrapped handler's node selection, which must
					// not run for a blocked request: the blocked outlier cases belong to the middleware (above).
					continue
				}
				c19Seq++
				res := fmt.Sprintf("c19-outlier-svc-%d", c19Seq) // fresh resource (= service name) per case
				fallbackHit := false
				opts := []Option{WithEnableOutlier(func(context.Context) bool { return true })}
				if s.fallback {
					opts = append(opts, WithBlockFallback(func(context.Context, interface{}, error) (interface{}, error) {
						fallbackHit = true
						return nil, c19ErrFallback
					}))
				}
				c19Block(res, blocked)
				c19OutlierRule(res)
				mw := SentinelClientMiddleware(opts...)
				c19Case(t, "kratos", s.ep, s.name, res, blocked, handler, true, func() c19Drive {
					calls := 0
					var err error
					ctx := transport.NewClientContext(context.Background(), c19Transport{"discovery:///" + res, "/c19.Svc/Call"})
					if s.md {
						ctx = metadata.NewClientContext(ctx, metadata.New())
					}
					peer := &selector.Peer{}
					ctx = selector.NewPeerContext(ctx, peer)
					p := c19Guard(func() {
						_, err = mw(func(ctx context.Context, _ interface{}) (interface{}, error) {
							calls++
							if s.peer {
								// node selection, as the transport's selector / balancer does it
								picked := nodes
								if s.ep == "OutlierClientFilter" {
									picked = OutlierClientFilter(ctx, nodes)
									if len(picked) != len(nodes) {
										t.Errorf("OutlierClientFilter dropped nodes although none is ejected: %v", picked)
									}
								}
								if len(picked) > 0 {
									peer.Node = picked[0]
								}
							}
							switch handler {
							case "error":
								return nil, c19ErrHandler
							case "panic":
								panic("handler panic")
							}
							return "resp", nil
						})(ctx, "req")
					})
					c19NodeEvents(res)
					rejected := c19IsBlockErr(err)
					if s.fallback {
						rejected = fallbackHit && err == c19ErrFallback
					}
					return c19Drive{HandlerCalls: calls, Rejected: rejected, Panicked: p}
				})
			}
		}
	}
	c19SetBlocked()
}
