package gear

import (
	"errors"
	"io"
	"log"
	"net/http"
	"net/http/httptest"
	"testing"

	"github.com/alibaba/sentinel-golang/core/stat"
	"github.com/teambition/gear"
)

// drives SentinelMiddleware through a real gear app + router (httptest, no network).
// gear middlewares are a sequential list (no "next"): the adapter never sees the
// handler's error (errVisible=false). gear itself recovers handler panics (-> 500).
func TestVerifC19Gear(t *testing.T) {
	defer c19Finish()
	newApp := func(h gear.Middleware, path string, opts ...Option) *gear.App {
		app := gear.New()
		app.Set(gear.SetLogger, log.New(io.Discard, "", 0))
		router := gear.NewRouter()
		router.Use(SentinelMiddleware(opts...))
		router.Get(path, h)
		app.UseHandler(router)
		return app
	}
	for _, withFallback := range []bool{false, true} {
		for _, handler := range []string{"ok", "error", "panic"} {
			for _, blocked := range []bool{false, true} {
				calls := 0
				fallbackHit := false
				var opts []Option
				if withFallback {
					opts = append(opts, WithBlockFallback(func(ctx *gear.Context) error {
						fallbackHit = true
						return ctx.End(http.StatusServiceUnavailable, []byte("fallback"))
					}))
				}
				app := newApp(func(ctx *gear.Context) error {
					calls++
					// observation only (not part of the helper's oracle): is the entry still open while the handler runs?
					if n := stat.GetResourceNode("GET:/c19/:id"); n != nil && n.CurrentConcurrency() == 0 {
						t.Logf("C19 observation (gear, handler=%s): the entry was already exited when the handler started (concurrency 0 inside the handler)", handler)
					}
					switch handler {
					case "error":
						return errors.New("handler error")
					case "panic":
						panic("handler panic")
					}
					return ctx.End(http.StatusOK, []byte("ok"))
				}, "/c19/:id", opts...)
				res := "GET:/c19/:id"
				if blocked {
					c19SetBlocked(res)
				} else {
					c19SetBlocked()
				}
				scenario := "default-rejection"
				if withFallback {
					scenario = "configured-fallback"
				}
				c19Case(t, "gear", "SentinelMiddleware", scenario, res, blocked, handler, false, func() c19Drive {
					w := httptest.NewRecorder()
					app.ServeHTTP(w, httptest.NewRequest("GET", "/c19/7", nil))
					rejected := w.Code == http.StatusTooManyRequests
					if withFallback {
						rejected = fallbackHit && w.Code == http.StatusServiceUnavailable
					}
					return c19Drive{HandlerCalls: calls, Rejected: rejected}
				})
			}
		}
	}
	// custom resource extractor
	calls := 0
	app := newApp(func(ctx *gear.Context) error { calls++; return ctx.End(200, []byte("ok")) }, "/x/:id",
		WithResourceExtractor(func(ctx *gear.Context) string { return "c19-custom-" + ctx.Param("id") }))
	for _, blocked := range []bool{false, true} {
		calls = 0
		if blocked {
			c19SetBlocked("c19-custom-9")
		} else {
			c19SetBlocked()
		}
		c19Case(t, "gear", "SentinelMiddleware", "resource-extractor", "c19-custom-9", blocked, "ok", false, func() c19Drive {
			w := httptest.NewRecorder()
			app.ServeHTTP(w, httptest.NewRequest("GET", "/x/9", nil))
			return c19Drive{HandlerCalls: calls, Rejected: w.Code == http.StatusTooManyRequests}
		})
	}
	c19SetBlocked()
}
