package grpc

import (
	"context"
	"errors"
	"testing"

	"github.com/alibaba/sentinel-golang/core/base"
	"google.golang.org/grpc"
)

// The four interceptors are invoked directly (as grpc's chain would) with a fake
// invoker / streamer / handler and fake streams: no connection is needed.
// All four receive the wrapped callee's error: errVisible=true.
// "handler" for the stream client interceptor is the streamer (stream creation),
// for the stream server interceptor the grpc.StreamHandler.
// Nothing recovers panics in a grpc interceptor chain, so the panic propagates
// (caught here to keep the handler count, and reported as Panicked).

var (
	c19ErrHandler  = errors.New("handler error")
	c19ErrFallback = errors.New("fallback")
)

type c19ClientStream struct{ grpc.ClientStream }
type c19ServerStream struct{ grpc.ServerStream }

func (c19ServerStream) Context() context.Context { return context.Background() }

// c19Guard runs f and converts an escaping panic into Panicked.
func c19Guard(f func()) (panicked bool) {
	defer func() {
		if r := recover(); r != nil {
			panicked = true
		}
	}()
	f()
	return
}

func c19Behave(kind string) error {
	switch kind {
	case "error":
		return c19ErrHandler
	case "panic":
		panic("handler panic")
	}
	return nil
}

func c19IsDefaultRejection(err error) bool {
	be, ok := err.(*base.BlockError)
	return ok && be != nil && be.BlockType() == base.BlockTypeFlow
}

type c19Scn struct {
	name      string
	fallback  bool
	extractor bool
}

var c19Scns = []c19Scn{{"default-rejection", false, false}, {"configured-fallback", true, false}, {"resource-extractor", false, true}}

func c19Each(f func(s c19Scn, blocked bool, handler string)) {
	for _, s := range c19Scns {
		for _, h := range []string{"ok", "error", "panic"} {
			for _, blocked := range []bool{false, true} {
				f(s, blocked, h)
			}
		}
	}
	c19SetBlocked()
}

func c19Block(res string, blocked bool) {
	if blocked {
		c19SetBlocked(res)
	} else {
		c19SetBlocked()
	}
}

func TestVerifC19GrpcUnaryClient(t *testing.T) {
	defer c19Finish()
	const method = "/c19.Svc/UnaryClient"
	c19Each(func(s c19Scn, blocked bool, handler string) {
		res := method
		fallbackHit := false
		var opts []Option
		if s.fallback {
			opts = append(opts, WithUnaryClientBlockFallback(func(context.Context, string, interface{}, *grpc.ClientConn, *base.BlockError) error {
				fallbackHit = true
				return c19ErrFallback
			}))
		}
		if s.extractor {
			res = "c19-custom:" + method
			opts = append(opts, WithUnaryClientResourceExtractor(func(_ context.Context, m string, _ interface{}, _ *grpc.ClientConn) string {
				return "c19-custom:" + m
			}))
		}
		c19Block(res, blocked)
		ic := NewUnaryClientInterceptor(opts...)
		c19Case(t, "grpc", "NewUnaryClientInterceptor", s.name, res, blocked, handler, true, func() c19Drive {
			calls := 0
			var err error
			p := c19Guard(func() {
				err = ic(context.Background(), method, "req", nil, nil, func(context.Context, string, interface{}, interface{}, *grpc.ClientConn, ...grpc.CallOption) error {
					calls++
					return c19Behave(handler)
				})
			})
			rejected := c19IsDefaultRejection(err)
			if s.fallback {
				rejected = fallbackHit && err == c19ErrFallback
			}
			return c19Drive{HandlerCalls: calls, Rejected: rejected, Panicked: p}
		})
	})
}

func TestVerifC19GrpcStreamClient(t *testing.T) {
	defer c19Finish()
	const method = "/c19.Svc/StreamClient"
	c19Each(func(s c19Scn, blocked bool, handler string) {
		res := method
		fallbackHit := false
		var opts []Option
		if s.fallback {
			opts = append(opts, WithStreamClientBlockFallback(func(context.Context, *grpc.StreamDesc, *grpc.ClientConn, string, *base.BlockError) (grpc.ClientStream, error) {
				fallbackHit = true
				return nil, c19ErrFallback
			}))
		}
		if s.extractor {
			res = "c19-custom:" + method
			opts = append(opts, WithStreamClientResourceExtractor(func(_ context.Context, _ *grpc.StreamDesc, _ *grpc.ClientConn, m string) string {
				return "c19-custom:" + m
			}))
		}
		c19Block(res, blocked)
		ic := NewStreamClientInterceptor(opts...)
		c19Case(t, "grpc", "NewStreamClientInterceptor", s.name, res, blocked, handler, true, func() c19Drive {
			calls := 0
			var err error
			var cs grpc.ClientStream
			p := c19Guard(func() {
				cs, err = ic(context.Background(), &grpc.StreamDesc{StreamName: "StreamClient", ClientStreams: true, ServerStreams: true}, nil, method,
					func(context.Context, *grpc.StreamDesc, *grpc.ClientConn, string, ...grpc.CallOption) (grpc.ClientStream, error) {
						calls++
						if e := c19Behave(handler); e != nil {
							return nil, e
						}
						return c19ClientStream{}, nil
					})
			})
			rejected := cs == nil && c19IsDefaultRejection(err)
			if s.fallback {
				rejected = fallbackHit && cs == nil && err == c19ErrFallback
			}
			return c19Drive{HandlerCalls: calls, Rejected: rejected, Panicked: p}
		})
	})
}

func TestVerifC19GrpcUnaryServer(t *testing.T) {
	defer c19Finish()
	const method = "/c19.Svc/UnaryServer"
	c19Each(func(s c19Scn, blocked bool, handler string) {
		res := method
		fallbackHit := false
		var opts []Option
		if s.fallback {
			opts = append(opts, WithUnaryServerBlockFallback(func(context.Context, interface{}, *grpc.UnaryServerInfo, *base.BlockError) (interface{}, error) {
				fallbackHit = true
				return nil, c19ErrFallback
			}))
		}
		if s.extractor {
			res = "c19-custom:" + method
			opts = append(opts, WithUnaryServerResourceExtractor(func(_ context.Context, _ interface{}, info *grpc.UnaryServerInfo) string {
				return "c19-custom:" + info.FullMethod
			}))
		}
		c19Block(res, blocked)
		ic := NewUnaryServerInterceptor(opts...)
		c19Case(t, "grpc", "NewUnaryServerInterceptor", s.name, res, blocked, handler, true, func() c19Drive {
			calls := 0
			var err error
			p := c19Guard(func() {
				_, err = ic(context.Background(), "req", &grpc.UnaryServerInfo{FullMethod: method}, func(context.Context, interface{}) (interface{}, error) {
					calls++
					if e := c19Behave(handler); e != nil {
						return nil, e
					}
					return "resp", nil
				})
			})
			rejected := c19IsDefaultRejection(err)
			if s.fallback {
				rejected = fallbackHit && err == c19ErrFallback
			}
			return c19Drive{HandlerCalls: calls, Rejected: rejected, Panicked: p}
		})
	})
}

func TestVerifC19GrpcStreamServer(t *testing.T) {
	defer c19Finish()
	const method = "/c19.Svc/StreamServer"
	c19Each(func(s c19Scn, blocked bool, handler string) {
		res := method
		fallbackHit := false
		var opts []Option
		if s.fallback {
			opts = append(opts, WithStreamServerBlockFallback(func(interface{}, grpc.ServerStream, *grpc.StreamServerInfo, *base.BlockError) error {
				fallbackHit = true
				return c19ErrFallback
			}))
		}
		if s.extractor {
			res = "c19-custom:" + method
			opts = append(opts, WithStreamServerResourceExtractor(func(_ interface{}, _ grpc.ServerStream, info *grpc.StreamServerInfo) string {
				return "c19-custom:" + info.FullMethod
			}))
		}
		c19Block(res, blocked)
		ic := NewStreamServerInterceptor(opts...)
		c19Case(t, "grpc", "NewStreamServerInterceptor", s.name, res, blocked, handler, true, func() c19Drive {
			calls := 0
			var err error
			p := c19Guard(func() {
				err = ic(nil, c19ServerStream{}, &grpc.StreamServerInfo{FullMethod: method, IsClientStream: true, IsServerStream: true}, func(interface{}, grpc.ServerStream) error {
					calls++
					return c19Behave(handler)
				})
			})
			rejected := c19IsDefaultRejection(err)
			if s.fallback {
				rejected = fallbackHit && err == c19ErrFallback
			}
			return c19Drive{HandlerCalls: calls, Rejected: rejected, Panicked: p}
		})
	})
}
