package iris

import (
	"net/http"
	"net/http/httptest"
	"testing"

	"github.com/kataras/iris/v12"
	"github.com/kataras/iris/v12/middleware/recover"
)

// drives SentinelMiddleware through a real iris application (Build + ServeHTTP with
// net/http/httptest, no listener). iris handlers return nothing and ctx.Next() returns
// nothing: errVisible=false. Default resource = METHOD + ":" + URL.String().
func c19IrisApp(path string, h iris.Handler, opts ...Option) *iris.Application {
	app := iris.New()
	app.Logger().SetLevel("disable")
	app.Use(recover.New()) // outermost, as applications do
	app.Use(SentinelMiddleware(opts...))
	app.Get(path, h)
	if err := app.Build(); err != nil {
		panic(err)
	}
	return app
}

func TestVerifC19Iris(t *testing.T) {
	defer c19Finish()
	for _, withFallback := range []bool{false, true} {
		for _, handler := range []string{"ok", "error", "panic"} {
			for _, blocked := range []bool{false, true} {
				calls := 0
				fallbackHit := false
				var opts []Option
				if withFallback {
					opts = append(opts, WithBlockFallback(func(ctx iris.Context) {
						fallbackHit = true
						ctx.StopWithStatus(http.StatusServiceUnavailable)
					}))
				}
				app := c19IrisApp("/c19/{id}", func(ctx iris.Context) {
					calls++
					switch handler {
					case "error":
						ctx.StopWithStatus(http.StatusInternalServerError)
					case "panic":
						panic("handler panic")
					default:
						ctx.WriteString("ok")
					}
				}, opts...)
				res := "GET:/c19/7"
				if blocked {
					c19SetBlocked(res)
				} else {
					c19SetBlocked()
				}
				scenario := "default-rejection"
				if withFallback {
					scenario = "configured-fallback"
				}
				c19Case(t, "iris", "SentinelMiddleware", scenario, res, blocked, handler, false, func() c19Drive {
					w := httptest.NewRecorder()
					app.ServeHTTP(w, httptest.NewRequest("GET", "/c19/7", nil))
					rejected := w.Code == http.StatusTooManyRequests
					if withFallback {
						rejected = fallbackHit && w.Code == http.StatusServiceUnavailable
					}
					return c19Drive{HandlerCalls: calls, Rejected: rejected}
				})
			}
		}
	}
	// custom resource extractor
	calls := 0
	app := c19IrisApp("/x/{id}", func(ctx iris.Context) { calls++; ctx.WriteString("ok") },
		WithResourceExtractor(func(ctx iris.Context) string { return "c19-custom-" + ctx.Params().Get("id") }))
	for _, blocked := range []bool{false, true} {
		calls = 0
		if blocked {
			c19SetBlocked("c19-custom-9")
		} else {
			c19SetBlocked()
		}
		c19Case(t, "iris", "SentinelMiddleware", "resource-extractor", "c19-custom-9", blocked, "ok", false, func() c19Drive {
			w := httptest.NewRecorder()
			app.ServeHTTP(w, httptest.NewRequest("GET", "/x/9", nil))
			return c19Drive{HandlerCalls: calls, Rejected: w.Code == http.StatusTooManyRequests}
		})
	}
	c19SetBlocked()
}
