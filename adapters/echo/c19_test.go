package echo

import (
	"errors"
	"net/http"
	"net/http/httptest"
	"testing"

	"github.com/labstack/echo/v4"
	"github.com/labstack/echo/v4/middleware"
)

// drives SentinelMiddleware through a real echo engine (httptest, no network).
// echo handlers return an error THROUGH the middleware chain (err = next(c)), so a
// handler error is visible to the adapter: errVisible=true.
func TestVerifC19Echo(t *testing.T) {
	defer c19Finish()
	for _, withFallback := range []bool{false, true} {
		for _, handler := range []string{"ok", "error", "panic"} {
			for _, blocked := range []bool{false, true} {
				calls := 0
				fallbackHit := false
				var opts []Option
				if withFallback {
					opts = append(opts, WithBlockFallback(func(c echo.Context) error {
						fallbackHit = true
						return c.String(http.StatusServiceUnavailable, "fallback")
					}))
				}
				e := echo.New()
				e.HideBanner = true
				e.Logger.SetOutput(discard{})
				e.Use(middleware.Recover()) // outermost, as applications do
				e.Use(SentinelMiddleware(opts...))
				e.GET("/c19/:id", func(c echo.Context) error {
					calls++
					switch handler {
					case "error":
						return errors.New("handler error")
					case "panic":
						panic("handler panic")
					}
					return c.String(http.StatusOK, "ok")
				})
				res := "GET:/c19/:id"
				if blocked {
					c19SetBlocked(res)
				} else {
					c19SetBlocked()
				}
				scenario := "default-rejection"
				if withFallback {
					scenario = "configured-fallback"
				}
				c19Case(t, "echo", "SentinelMiddleware", scenario, res, blocked, handler, true, func() c19Drive {
					w := httptest.NewRecorder()
					e.ServeHTTP(w, httptest.NewRequest("GET", "/c19/7", nil))
					rejected := w.Code == http.StatusTooManyRequests
					if withFallback {
						rejected = fallbackHit && w.Code == http.StatusServiceUnavailable
					}
					return c19Drive{HandlerCalls: calls, Rejected: rejected}
				})
			}
		}
	}
	// custom resource extractor
	calls := 0
	e := echo.New()
	e.Use(SentinelMiddleware(WithResourceExtractor(func(c echo.Context) string { return "c19-custom-" + c.Param("id") })))
	e.GET("/x/:id", func(c echo.Context) error { calls++; return c.String(200, "ok") })
	for _, blocked := range []bool{false, true} {
		calls = 0
		if blocked {
			c19SetBlocked("c19-custom-9")
		} else {
			c19SetBlocked()
		}
		c19Case(t, "echo", "SentinelMiddleware", "resource-extractor", "c19-custom-9", blocked, "ok", true, func() c19Drive {
			w := httptest.NewRecorder()
			e.ServeHTTP(w, httptest.NewRequest("GET", "/x/9", nil))
			return c19Drive{HandlerCalls: calls, Rejected: w.Code == http.StatusTooManyRequests}
		})
	}
	c19SetBlocked()
}

type discard struct{}

func (discard) Write(p []byte) (int, error) { return len(p), nil }
