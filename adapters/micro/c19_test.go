package micro

import (
	"context"
	"errors"
	"fmt"
	"testing"

	"github.com/micro/go-micro/v2/client"
	"github.com/micro/go-micro/v2/client/selector"
	"github.com/micro/go-micro/v2/codec"
	"github.com/micro/go-micro/v2/registry"
	"github.com/micro/go-micro/v2/registry/memory"
	"github.com/micro/go-micro/v2/server"

	"github.com/alibaba/sentinel-golang/core/base"
	"github.com/alibaba/sentinel-golang/core/circuitbreaker"
	"github.com/alibaba/sentinel-golang/core/outlier"
	"github.com/alibaba/sentinel-golang/core/stat"
)

// The wrappers are invoked directly, without a network:
//   NewClientWrapper  wraps a fake inner client.Client whose Call / Stream are the "handler". The fake does what
//                     go-micro's rpcClient does with the per-call options the adapter adds in its outlier branch:
//                     node selection through a real selector + memory registry (SelectOptions filters), and for Call
//                     the CallWrappers around the low level call (rpcClient.Stream does not run CallWrappers).
//   NewHandlerWrapper wraps a server.HandlerFunc, called with a fake server.Request.
//   NewStreamWrapper  is a func(server.Stream) server.Stream. go-micro itself never calls a server.StreamWrapper; a
//                     streaming handler applies it to its stream and goes on with what it gets back. There is no
//                     wrapped function, so the "handler" is the stream processing that follows: it is counted as
//                     invoked iff the wrapper hands back a non-nil stream.
// All client/handler wrappers receive the callee's error: errVisible=true. Nothing recovers panics at this level:
// they propagate (caught here to keep the handler count; reported as Panicked).
//
// Outlier branch of clientWrapper.Call: the adapter builds a PRIVATE slot chain per call, invisible to the helper's
// StatSlot on the global chain. For these cases the driver reads what the built-in stat.DefaultSlot of that chain
// recorded on the (fresh, per case) resource node and hands it to the helper as passed/blocked/completed events.
// clientWrapper.Stream's outlier branch does the same since its repair (it used to append its slots to the GLOBAL
// chain on every call).

var (
	c19ErrHandler  = errors.New("handler error")
	c19ErrFallback = errors.New("fallback")
	c19Seq         int
	c19Registry    = memory.NewRegistry()
	c19Selector    = selector.NewSelector(selector.Registry(c19Registry))
)

func c19Guard(f func()) (panicked bool) {
	defer func() {
		if r := recover(); r != nil {
			panicked = true
		}
	}()
	f()
	return
}

func c19Behave(kind string) error {
	switch kind {
	case "error":
		return c19ErrHandler
	case "panic":
		panic("handler panic")
	}
	return nil
}

func c19Block(res string, blocked bool) {
	if blocked {
		c19SetBlocked(res)
	} else {
		c19SetBlocked()
	}
}

func c19IsBlockErr(err error) bool {
	be, ok := err.(*base.BlockError)
	return ok && be != nil
}

// ---- fakes

type c19CliReq struct{ svc, method string }

func (r c19CliReq) Service() string     { return r.svc }
func (r c19CliReq) Method() string      { return r.method }
func (r c19CliReq) Endpoint() string    { return r.method }
func (r c19CliReq) ContentType() string { return "application/json" }
func (r c19CliReq) Body() interface{}   { return nil }
func (r c19CliReq) Codec() codec.Writer { return nil }
func (r c19CliReq) Stream() bool        { return false }

type c19CliStream struct{ client.Stream }

type c19SrvReq struct {
	server.Request
	method string
}

func (r c19SrvReq) Method() string  { return r.method }
func (r c19SrvReq) Service() string { return "c19.svc" }

type c19SrvStream struct {
	server.Stream
	req  server.Request
	sent []interface{}
}

func (s *c19SrvStream) Context() context.Context { return context.Background() }
func (s *c19SrvStream) Request() server.Request  { return s.req }
func (s *c19SrvStream) Send(v interface{}) error { s.sent = append(s.sent, v); return nil }

// c19Inner is the wrapped client: Call / Stream are the "handler".
type c19Inner struct {
	client.Client
	kind  string
	calls int
}

func (c *c19Inner) pick(req client.Request, co client.CallOptions) (*registry.Node, error) {
	next, err := c19Selector.Select(req.Service(), co.SelectOptions...)
	if err != nil {
		return nil, err
	}
	return next()
}

func (c *c19Inner) Call(ctx context.Context, req client.Request, rsp interface{}, opts ...client.CallOption) error {
	c.calls++
	var co client.CallOptions
	for _, o := range opts {
		o(&co)
	}
	node, err := c.pick(req, co)
	if err != nil {
		return err
	}
	call := client.CallFunc(func(context.Context, *registry.Node, client.Request, interface{}, client.CallOptions) error {
		return c19Behave(c.kind)
	})
	for i := len(co.CallWrappers); i > 0; i-- {
		call = co.CallWrappers[i-1](call)
	}
	return call(ctx, node, req, rsp, co)
}

func (c *c19Inner) Stream(ctx context.Context, req client.Request, opts ...client.CallOption) (client.Stream, error) {
	c.calls++
	var co client.CallOptions
	for _, o := range opts {
		o(&co)
	}
	if _, err := c.pick(req, co); err != nil {
		return nil, err
	}
	if err := c19Behave(c.kind); err != nil {
		return nil, err
	}
	return c19CliStream{}, nil
}

// c19Service registers a fresh service (two nodes) and, for the outlier branch, gives it an outlier rule
// (thresholds far away: nothing is ejected), as an application that enables the branch has one.
func c19Service(outlierRule bool) string {
	c19Seq++
	svc := fmt.Sprintf("c19-svc-%d", c19Seq)
	err := c19Registry.Register(&registry.Service{Name: svc, Version: "1.0", Nodes: []*registry.Node{
		{Id: svc + "-1", Address: "10.0.0.1:9000"}, {Id: svc + "-2", Address: "10.0.0.2:9000"}}})
	if err != nil {
		panic(err)
	}
	if outlierRule {
		_, err = outlier.LoadRuleOfResource(svc, &outlier.Rule{
			Rule: &circuitbreaker.Rule{Resource: svc, Strategy: circuitbreaker.ErrorCount, RetryTimeoutMs: 3000,
				MinRequestAmount: 1000, StatIntervalMs: 1000, Threshold: 1000},
			MaxEjectionPercent: 0.5, RecoveryIntervalMs: 2000, MaxRecoveryAttempts: 5,
		})
		if err != nil {
			panic(err)
		}
	}
	return svc
}

// c19NodeEvents turns what stat.DefaultSlot recorded on the (fresh) resource node into helper events.
func c19NodeEvents(res string) {
	n := stat.GetResourceNode(res)
	if n == nil {
		return
	}
	c19mu.Lock()
	defer c19mu.Unlock()
	for i := int64(0); i < n.GetSum(base.MetricEventPass); i++ {
		c19events = append(c19events, c19Event{"passed", res, false})
	}
	for i := int64(0); i < n.GetSum(base.MetricEventBlock); i++ {
		c19events = append(c19events, c19Event{"blocked", res, false})
	}
	errs := n.GetSum(base.MetricEventError)
	for i := int64(0); i < n.GetSum(base.MetricEventComplete); i++ {
		c19events = append(c19events, c19Event{"completed", res, i < errs})
	}
}

type c19Scn struct {
	name                         string
	fallback, extractor, outlier bool
}

var c19Handlers = []string{"ok", "error", "panic"}

// c19ClientCases drives clientWrapper.Call (stream=false) or clientWrapper.Stream (stream=true).
func c19ClientCases(t *testing.T, stream bool, scns []c19Scn) {
	kind := "Call/"
	if stream {
		kind = "Stream/"
	}
	for _, s := range scns {
		for _, handler := range c19Handlers {
			for _, blocked := range []bool{false, true} {
				svc := c19Service(s.outlier)
				method := "C19." + kind[:len(kind)-1]
				res := method
				fallbackHit := false
				var opts []Option
				if s.outlier {
					res = svc
					opts = append(opts, WithEnableOutlier(func(context.Context) bool { return true }))
				}
				if s.fallback {
					opts = append(opts,
						WithClientBlockFallback(func(context.Context, client.Request, *base.BlockError) error {
							fallbackHit = true
							return c19ErrFallback
						}),
						WithStreamClientBlockFallback(func(context.Context, client.Request, *base.BlockError) (client.Stream, error) {
							fallbackHit = true
							return nil, c19ErrFallback
						}))
				}
				if s.extractor {
					res = "c19-custom:" + method
					ex := func(_ context.Context, r client.Request) string { return "c19-custom:" + r.Method() }
					opts = append(opts, WithClientResourceExtractor(ex), WithStreamClientResourceExtractor(ex))
				}
				c19Block(res, blocked)
				inner := &c19Inner{kind: handler}
				wrapped := NewClientWrapper(opts...)(inner)
				c19Case(t, "micro", "NewClientWrapper", kind+s.name, res, blocked, handler, true, func() c19Drive {
					var err error
					var cs client.Stream
					p := c19Guard(func() {
						if stream {
							cs, err = wrapped.Stream(context.Background(), c19CliReq{svc, method})
						} else {
							err = wrapped.Call(context.Background(), c19CliReq{svc, method}, nil)
						}
					})
					if s.outlier {
						// both outlier branches (Call and Stream) use a private slot chain
						c19NodeEvents(res)
					}
					rejected := cs == nil && c19IsBlockErr(err)
					if s.fallback {
						rejected = fallbackHit && cs == nil && err == c19ErrFallback
					}
					return c19Drive{HandlerCalls: inner.calls, Rejected: rejected, Panicked: p}
				})
			}
		}
	}
	c19SetBlocked()
}

func TestVerifC19MicroClientCall(t *testing.T) {
	defer c19Finish()
	c19ClientCases(t, false, []c19Scn{
		{name: "default-rejection"},
		{name: "configured-fallback", fallback: true},
		{name: "resource-extractor", extractor: true},
		{name: "outlier-enabled", outlier: true},
		{name: "outlier-enabled+configured-fallback", outlier: true, fallback: true},
	})
}

func TestVerifC19MicroClientStream(t *testing.T) {
	defer c19Finish()
	c19ClientCases(t, true, []c19Scn{
		{name: "default-rejection"},
		{name: "configured-fallback", fallback: true},
		{name: "resource-extractor", extractor: true},
	})
}

func TestVerifC19MicroHandlerWrapper(t *testing.T) {
	defer c19Finish()
	const method = "C19.Handle"
	for _, s := range []c19Scn{{name: "default-rejection"}, {name: "configured-fallback", fallback: true}, {name: "resource-extractor", extractor: true}} {
		for _, handler := range c19Handlers {
			for _, blocked := range []bool{false, true} {
				res := method
				fallbackHit := false
				var opts []Option
				if s.fallback {
					opts = append(opts, WithServerBlockFallback(func(context.Context, server.Request, *base.BlockError) error {
						fallbackHit = true
						return c19ErrFallback
					}))
				}
				if s.extractor {
					res = "c19-custom:" + method
					opts = append(opts, WithServerResourceExtractor(func(_ context.Context, r server.Request) string { return "c19-custom:" + r.Method() }))
				}
				c19Block(res, blocked)
				calls := 0
				h := NewHandlerWrapper(opts...)(func(context.Context, server.Request, interface{}) error {
					calls++
					return c19Behave(handler)
				})
				c19Case(t, "micro", "NewHandlerWrapper", s.name, res, blocked, handler, true, func() c19Drive {
					var err error
					p := c19Guard(func() { err = h(context.Background(), c19SrvReq{method: method}, nil) })
					rejected := c19IsBlockErr(err)
					if s.fallback {
						rejected = fallbackHit && err == c19ErrFallback
					}
					return c19Drive{HandlerCalls: calls, Rejected: rejected, Panicked: p}
				})
			}
		}
	}
	c19SetBlocked()
}

// NewStreamWrapper: nothing the wrapper could observe fails or panics (it only gets the stream), so handler="ok" only.
func TestVerifC19MicroStreamWrapper(t *testing.T) {
	defer c19Finish()
	const method = "C19.ServerStream"
	type scn struct {
		name                                 string
		fallback, extractor, sharedServerOps bool
	}
	for _, s := range []scn{
		{name: "default-rejection"},
		{name: "configured-fallback(WithStreamServerBlockFallback)", fallback: true},
		{name: "resource-extractor(WithStreamServerResourceExtractor)", extractor: true},
		// the option list an application shares between NewHandlerWrapper and NewStreamWrapper
		{name: "handler-wrapper-options(WithServerResourceExtractor+WithServerBlockFallback)", sharedServerOps: true},
	} {
		for _, blocked := range []bool{false, true} {
			res := method
			fallbackHit := false
			var opts []Option
			if s.fallback {
				opts = append(opts, WithStreamServerBlockFallback(func(server.Stream, *base.BlockError) server.Stream {
					fallbackHit = true
					return nil // no stream to go on with
				}))
			}
			if s.extractor {
				res = "c19-custom:" + method
				opts = append(opts, WithStreamServerResourceExtractor(func(st server.Stream) string { return "c19-custom:" + st.Request().Method() }))
			}
			if s.sharedServerOps {
				// the handler wrapper's options do not apply to the stream wrapper: it must keep working
				// with its defaults (resource = method name, default rejection)
				opts = append(opts,
					WithServerResourceExtractor(func(_ context.Context, r server.Request) string { return "c19-custom:" + r.Method() }),
					WithServerBlockFallback(func(context.Context, server.Request, *base.BlockError) error {
						fallbackHit = true
						return c19ErrFallback
					}))
			}
			c19Block(res, blocked)
			wrap := NewStreamWrapper(opts...)
			c19Case(t, "micro", "NewStreamWrapper", s.name, res, blocked, "ok", false, func() c19Drive {
				st := &c19SrvStream{req: c19SrvReq{method: method}}
				calls := 0
				var got server.Stream
				p := c19Guard(func() { got = wrap(st) })
				rejected := false
				for _, v := range st.sent {
					if be, ok := v.(*base.BlockError); ok && be != nil {
						rejected = true // default rejection: the block error is sent on the stream
					}
				}
				// A server.StreamWrapper has no wrapped function it could refrain from calling: the streaming
				// handler goes on with whatever stream it gets back. It is counted as invoked iff a stream is
				// handed back WITHOUT the adapter's rejection having been sent on it (the default rejection
				// sends the block error on the stream and returns it: that is the rejection, not an invocation).
				if got != nil && !rejected {
					calls++
				}
				if s.fallback {
					rejected = fallbackHit
				}
				return c19Drive{HandlerCalls: calls, Rejected: rejected, Panicked: p}
			})
		}
	}
	c19SetBlocked()
}

// (kept last for historical reasons: before the repair clientWrapper.Stream's outlier branch appended its slots to the global chain on every call)
func TestVerifC19MicroZClientStreamOutlier(t *testing.T) {
	defer c19Finish()
	c19ClientCases(t, true, []c19Scn{
		{name: "outlier-enabled", outlier: true},
		{name: "outlier-enabled+configured-fallback", outlier: true, fallback: true},
	})
}
