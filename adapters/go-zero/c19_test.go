package go_zero

import (
	"fmt"
	"net/http"
	"net/http/httptest"
	"strings"
	"testing"

	"github.com/zeromicro/go-zero/core/logx"
	"github.com/zeromicro/go-zero/rest"
	"github.com/zeromicro/go-zero/rest/handler"
	"github.com/zeromicro/go-zero/rest/router"
)

// The go-zero middlewares are plain func(http.HandlerFunc) http.HandlerFunc. They are
// mounted on go-zero's own router (rest/router, an http.Handler) behind go-zero's
// RecoverHandler (outermost, as the rest engine installs it) and driven with httptest;
// the rest.Server itself can only be exercised over a listening socket.
// An http.HandlerFunc returns nothing: errVisible=false. Resource = METHOD:URL.Path.
func c19ZeroServe(mw rest.Middleware, path string, h http.HandlerFunc, reqPath string) *httptest.ResponseRecorder {
	logx.Disable() // RecoverHandler logs the stack of every recovered panic
	rt := router.NewRouter()
	if err := rt.Handle(http.MethodGet, path, handler.RecoverHandler(mw(h))); err != nil {
		panic(err)
	}
	w := httptest.NewRecorder()
	rt.ServeHTTP(w, httptest.NewRequest(http.MethodGet, reqPath, nil))
	return w
}

func c19ZeroHandler(kind string, calls *int) http.HandlerFunc {
	return func(w http.ResponseWriter, r *http.Request) {
		*calls++
		switch kind {
		case "error":
			http.Error(w, "handler error", http.StatusInternalServerError)
		case "panic":
			panic("handler panic")
		default:
			w.WriteHeader(http.StatusOK)
		}
	}
}

func TestVerifC19GoZeroGlobal(t *testing.T) {
	defer c19Finish()
	// (fbStatus 0 = no fallback configured; the configured fallback chooses the status it likes, error class or not)
	for _, fbStatus := range []int{0, http.StatusServiceUnavailable, http.StatusOK, http.StatusNonAuthoritativeInfo} {
		withFallback := fbStatus != 0
		for _, hk := range []string{"ok", "error", "panic"} {
			for _, blocked := range []bool{false, true} {
				fbStatus := fbStatus
				calls := 0
				fallbackHit := false
				var opts []Option
				if withFallback {
					opts = append(opts, WithBlockFallback(func(r *http.Request) (int, string) {
						fallbackHit = true
						return fbStatus, "fallback"
					}))
				}
				res := "GET:/c19/7"
				if blocked {
					c19SetBlocked(res)
				} else {
					c19SetBlocked()
				}
				scenario := "default-rejection"
				if withFallback {
					scenario = fmt.Sprintf("configured-fallback-%d", fbStatus)
				}
				c19Case(t, "go-zero", "SentinelMiddleware", scenario, res, blocked, hk, false, func() c19Drive {
					w := c19ZeroServe(SentinelMiddleware(opts...), "/c19/:id", c19ZeroHandler(hk, &calls), "/c19/7")
					rejected := w.Code == http.StatusTooManyRequests
					if withFallback {
						rejected = fallbackHit && w.Code == fbStatus && strings.Contains(w.Body.String(), "fallback")
					}
					return c19Drive{HandlerCalls: calls, Rejected: rejected}
				})
			}
		}
	}
	// custom resource extractor
	for _, blocked := range []bool{false, true} {
		calls := 0
		if blocked {
			c19SetBlocked("c19-custom-9")
		} else {
			c19SetBlocked()
		}
		mw := SentinelMiddleware(WithResourceExtractor(func(r *http.Request) string { return "c19-custom-" + r.URL.Query().Get("id") }))
		c19Case(t, "go-zero", "SentinelMiddleware", "resource-extractor", "c19-custom-9", blocked, "ok", false, func() c19Drive {
			w := c19ZeroServe(mw, "/x", c19ZeroHandler("ok", &calls), "/x?id=9")
			return c19Drive{HandlerCalls: calls, Rejected: w.Code == http.StatusTooManyRequests}
		})
	}
	c19SetBlocked()
}

// routing middleware: NewSentinelRouteMiddleware().Handle (no options: default rejection only)
func TestVerifC19GoZeroRoute(t *testing.T) {
	defer c19Finish()
	for _, ep := range []string{"NewSentinelRouteMiddleware", "SentinelRouteMiddleware.Handle"} {
		for _, hk := range []string{"ok", "error", "panic"} {
			for _, blocked := range []bool{false, true} {
				calls := 0
				res := "GET:/route/7"
				if blocked {
					c19SetBlocked(res)
				} else {
					c19SetBlocked()
				}
				var mw rest.Middleware
				if ep == "NewSentinelRouteMiddleware" {
					mw = NewSentinelRouteMiddleware().Handle // as goctl-generated code wires it
				} else {
					mw = (&SentinelRouteMiddleware{}).Handle // the method on a zero value
				}
				c19Case(t, "go-zero", ep, "default-rejection", res, blocked, hk, false, func() c19Drive {
					w := c19ZeroServe(mw, "/route/:id", c19ZeroHandler(hk, &calls), "/route/7")
					return c19Drive{HandlerCalls: calls, Rejected: w.Code == http.StatusTooManyRequests}
				})
			}
		}
	}
	c19SetBlocked()
}
